"""C05 -- let substitution (with overrides) preserves meaning (decided clauses)."""

from __future__ import annotations

import ast

from ..index import AnalysisError
from ..cfg import CFG, walk_no_nested, iter_stmts
from ..fieldflow import FuncFlow
from .common import visitor_transformer, check_field_flow, construct_of, cls_construct, position_visited

MOD = "jaqalpaq.core.algorithm.fill_in_let"
BLOCK = "jaqalpaq.core.block.BlockStatement"
LOOP = "jaqalpaq.core.block.LoopStatement"
GATE = "jaqalpaq.core.gate.GateStatement"
CIRCUIT = "jaqalpaq.core.circuit.Circuit"
QUBIT = "jaqalpaq.core.register.NamedQubit"
REGISTER = "jaqalpaq.core.register.Register"
MACRO = "jaqalpaq.core.macro.Macro"
CONSTANT = "jaqalpaq.core.constant.Constant"
PARAMETER = "jaqalpaq.core.parameter.Parameter"

R = "the property says everything the pass is not responsible for (block kinds, subcircuit annotations, macros, native gates, pulse imports) is preserved"
RC = "the property says no gate argument, qubit index, register size, alias bound, loop count or subcircuit count refers to a constant any more"

# IR classes each quantum-valued field may hold (from the class docstrings in core/register.py)
FIELD_DOMAIN = {
    (REGISTER, "alias_from"): [REGISTER, PARAMETER],
    (QUBIT, "alias_from"): [REGISTER, PARAMETER],
}


def find_visitors(ctx, entry_name="fill_in_let", mod=MOD):
    ix, T = ctx.ix, ctx.typer
    entry = ix.func(f"{mod}.{entry_name}")
    filler = None
    for cs in T.callsites(entry):
        if cs.kind == "constructor" and cs.classes and T.is_visitor(cs.classes[0]):
            filler = cs.classes[0]
    if filler is None:
        raise AnalysisError(f"cannot locate the visitor instantiated by {entry_name}")
    return filler


def names_in_expr(e):
    return {n.id for n in ast.walk(e) if isinstance(n, ast.Name)}


def return_kinds(ctx, fi):
    """Kinds a visit method may return: 'sexpr' (list/tuple display), 'ir' (IR object), 'other'."""
    T, ix = ctx.typer, ctx.ix
    fl = FuncFlow(ix, T, fi)
    kinds = {}
    for st in iter_stmts(fi.body):
        if not isinstance(st, ast.Return) or st.value is None:
            continue
        roots = [st.value]
        if isinstance(st.value, ast.Name):
            roots = fl.defs.get(st.value.id, []) or [st.value]
        for r in roots:
            if isinstance(r, (ast.List, ast.Tuple)) and r.elts and isinstance(r.elts[0], (ast.Constant, ast.Name)):
                kinds.setdefault("sexpr", st)
            elif isinstance(r, ast.Call) and any(t in ix.classes and t in T.ir_classes for t in T.types_of(r)):
                kinds.setdefault("ir", st)
            elif isinstance(r, ast.Name) and r.id in fi.params[1:2]:
                kinds.setdefault("ir", st)
            else:
                kinds.setdefault("other", st)
    return kinds


def value_preserving(fn) -> bool:
    """Every return of fn is its parameter, or a name returned under the test `<param> == <name>`."""
    from ..fieldflow import FuncFlow as _FF
    if isinstance(fn.node, ast.Lambda) or len(fn.params) != 1:
        return False
    p = fn.params[0]
    ok_any = False

    def walk(stmts, tests):
        nonlocal ok_any
        for st in stmts:
            if isinstance(st, ast.Return):
                v = st.value
                if isinstance(v, ast.Name) and v.id == p:
                    ok_any = True
                    continue
                if isinstance(v, ast.Name) and any(
                        isinstance(c, ast.Compare) and len(c.ops) == 1 and isinstance(c.ops[0], ast.Eq)
                        and {ast.unparse(c.left), ast.unparse(c.comparators[0])} == {p, v.id} for t in tests for c in ast.walk(t)):
                    ok_any = True
                    continue
                return False
            if isinstance(st, ast.If):
                if walk(st.body, tests + [st.test]) is False:
                    return False
                if walk(st.orelse, tests) is False:
                    return False
            elif isinstance(st, ast.Try):
                for blk in (st.body, st.orelse, st.finalbody, *[h.body for h in st.handlers]):
                    if walk(blk, tests) is False:
                        return False
            elif isinstance(st, (ast.For, ast.While, ast.With)):
                if walk(st.body, tests) is False:
                    return False
        return True
    return walk(fn.body, []) is not False and ok_any


def short_(q):
    return q.split('.')[-1]


def run(ctx, rep):
    ix, T = ctx.ix, ctx.typer
    from .common import check_alias_name_kept
    check_alias_name_kept(ctx, rep, "C05.9")
    from .common import check_no_frozen_size
    check_no_frozen_size(ctx, rep, "C05.8")
    from .common import check_fast_paths
    _fp_mods = ["jaqalpaq.core.algorithm.fill_in_let"]
    check_fast_paths(ctx, rep, "C05.7", [f for f in ix.functions.values() if f.module in _fp_mods and (f.cls is None or T.is_visitor(f.cls))], None)
    from .common import check_falsy_zero
    check_falsy_zero(ctx, rep, "C05.6", ['jaqalpaq.core.algorithm.fill_in_let', 'jaqalpaq.core.circuitbuilder', 'jaqalpaq.core.register', 'jaqalpaq.core.constant'], floor_positions=10)
    filler = find_visitors(ctx)
    sub_visitors = [c for c in ix.subclasses(filler) if ix.classes[c].module == MOD]
    rep.analysed["visitors"] = [filler] + sub_visitors
    rep.assume("visitor convention: the first parameter of visit_<K> has static type K")
    tr = visitor_transformer(ctx, filler)
    trs = [(filler, tr)] + [(v, visitor_transformer(ctx, v)) for v in sub_visitors]
    rep.analysed["functions"] = sorted(set().union(*[t.qualnames for _, t in trs]))

    # ------------------------------------------------------------ C05.3
    rep.rule("C05.3", "field flow through LetFiller for everything the pass must preserve", floor=20)
    check_field_flow(ctx, rep, "C05.3", tr, filler, [
        (BLOCK, "parallel", "required", R),
        (BLOCK, "subcircuit", "required", R),
        (BLOCK, "iterations", "required", RC),
        (BLOCK, "statements", "required", R),
        (LOOP, "iterations", "required", RC),
        (LOOP, "statements", "required", R),
        (GATE, "gate_def", "required", "the gate called is part of the meaning"),
        (GATE, "parameters", "required", RC),
        (MACRO, "name", "required", R),
        (MACRO, "parameters", "required", R),
        (MACRO, "body", "required", R),
        (MACRO, "_ideal_unitary", "exempt", "macros have no unitary"),
        (CIRCUIT, "constants", "required", "the new circuit retains the same information in circuit.constants (docstring)"),
        (CIRCUIT, "registers", "required", R),
        (CIRCUIT, "macros", "required", R),
        (CIRCUIT, "native_gates", "required", R),
        (CIRCUIT, "usepulses", "required", R),
        (CIRCUIT, "body", "required", R),
        (QUBIT, "alias_from", "required", RC),
        (QUBIT, "alias_index", "required", RC),
        (QUBIT, "name", "exempt", "derived from alias_from/alias_index when the qubit is rebuilt by indexing"),
    ])
    # registers are handled by the RegisterVisitor specialisation when there is one
    reg_vis, reg_tr = trs[-1] if sub_visitors else (filler, tr)
    check_field_flow(ctx, rep, "C05.3", reg_tr, reg_vis, [
        (REGISTER, "name", "required", R),
        (REGISTER, "_size", "read", RC + " (READ only: aliases legitimately have no size of their own)"),
        (REGISTER, "alias_from", "required", R),
        (REGISTER, "alias_slice", "required", RC),
    ])

    # ------------------------------------------------------------ C05.1
    rep.rule("C05.1", "every IR position that can hold a Constant is visited / resolved", floor=8)
    viol = {o.construct for o in rep.obligations if o.rule == "C05.3" and o.verdict == "violated"}
    positions = [
        (GATE, "parameters", None), (QUBIT, "alias_index", None), (REGISTER, "size", None),
        (REGISTER, "alias_slice", "start"), (REGISTER, "alias_slice", "stop"), (REGISTER, "alias_slice", "step"),
        (LOOP, "iterations", None), (BLOCK, "iterations", None),
    ]
    for cls, member, sub in positions:
        kname = ix.classes[cls].name
        label = f"{kname}.{member}" + (f".{sub}" if sub else "")
        cons = f"{cls_construct(ix, filler)}:{label}:resolved"
        if f"{cls_construct(ix, filler)}:{kname}.{member}" in viol:
            rep.info("C05.1", cons, "field is not read at all (reported under C05.3)")
            continue
        hit = None
        for v, t in trs:
            hit = hit or position_visited(ctx, t, cls, member, sub, via_methods=("resolve_constant",))
        if hit:
            rep.ok("C05.1", cons, f"passed to visit/resolve in {construct_of(hit[0])}", f"{hit[0].path}:{hit[1].lineno}")
        else:
            h = tr.has_handler(filler, cls)
            rep.violation("C05.1", cons, f"{label} may hold a let constant but is never visited or resolved: the constant survives the pass", h.loc() if h else "")

    # the source register of a qubit reference is re-resolved on every path (its size / alias bounds may hold constants)
    for v, t in trs:
        h = ix.classes[v].methods.get("visit_NamedQubit")
        if h is None:
            continue
        cons = construct_of(h, "alias_from:visited-on-every-path")
        fl = t.flows.get(h.qualname) or FuncFlow(ix, T, h)
        cfg = CFG(h.body)
        vnodes = []
        for cs in T.callsites(h):
            if cs.kind == "visit" and isinstance(cs.node, ast.Call) and cs.node.args:
                ids, _ = fl.depends(cs.node.args[0])
                if any(id(m) in ids and isinstance(m, ast.Attribute) and m.attr == "alias_from" for m in walk_no_nested(h.node)) and fl.is_relevant(cs.node):
                    n = cfg.containing_stmt_node(cs.node, h.body)
                    if n is not None:
                        vnodes.append(n)
        if vnodes and cfg.must_pass_nodes(cfg.exit, vnodes):
            rep.ok("C05.1", cons, "every returning path visits qubit.alias_from", h.loc())
        else:
            rep.violation("C05.1", cons, "a qubit reference can be returned without visiting its source register: `let n 2; register q[n]; foo q[0]` keeps pointing at the register sized by the constant n (overrides of n are ignored for that gate, and later passes meet a Constant where an int is expected)", h.loc(), witness="let n 2\nregister q[n]\nfoo q[0]")

    # the source of an alias register is re-resolved on every returning path of the alias case
    for v, t in trs:
        h = ix.classes[v].methods.get("visit_Register")
        if h is None:
            continue
        cons = construct_of(h, "alias_from:visited-on-every-alias-path")
        fl = t.flows.get(h.qualname) or FuncFlow(ix, T, h)
        cfg = CFG(h.body)
        vnodes = []
        for cs in T.callsites(h):
            if cs.kind == "visit" and isinstance(cs.node, ast.Call) and cs.node.args and fl.is_relevant(cs.node):
                ids, _ = fl.depends(cs.node.args[0])
                if any(id(m) in ids and isinstance(m, ast.Attribute) and m.attr == "alias_from" for m in walk_no_nested(h.node)):
                    n_ = cfg.containing_stmt_node(cs.node, h.body)
                    if n_ is not None:
                        vnodes.append(n_)
        fund_edges = []
        for st in iter_stmts(h.body):
            if isinstance(st, ast.If) and isinstance(st.test, ast.Attribute) and st.test.attr == "fundamental":
                fund_edges += cfg.branch_edges(cfg.node(st), True)
        reach = cfg.reachable_from(cfg.entry, removed_edges=fund_edges, removed_nodes=vnodes)
        if vnodes and cfg.exit not in reach:
            rep.ok("C05.1", cons, "every returning path of the alias case visits reg.alias_from", h.loc())
        else:
            rep.violation("C05.1", cons, "an alias register can be returned without visiting its source: `let k 0; map tail r[k:4]; map work tail` keeps `work` on the un-substituted (un-overridden) `tail`", h.loc(), witness="let k 0\nregister r[4]\nmap tail r[k:4]\nmap work tail\nfoo work[0]")

    # ------------------------------------------------------------ C05.2
    rep.rule("C05.2", "the override lookup (keyed by the constant's name) dominates the declared-value return", floor=1)
    over_attr = None
    init = ix.find_method(filler, "__init__")
    if init is not None:
        for c in ix.mro(filler):
            for name, lst in ix.classes[c].self_attrs.items():
                for fi, v in lst:
                    if fi.name == "__init__" and v is not None and any(isinstance(n, ast.Name) and n.id in init.params[1:] and "override" in n.id for n in ast.walk(v)):
                        over_attr = name
    if over_attr is None:
        raise AnalysisError("C05.2: LetFiller does not store its override dictionary (anchor vanished)")
    resolvers = []
    for f in tr.funcs:
        if f.cls and f.name != "__init__" and any(
            isinstance(n, ast.Attribute) and n.attr == over_attr and isinstance(n.value, ast.Name) and n.value.id == f.params[0]
            for n in walk_no_nested(f.node)
        ):
            # must also read .value of its parameter (a resolver), not merely forward the dict
            if any(isinstance(n, ast.Attribute) and n.attr == "value" for n in walk_no_nested(f.node)):
                resolvers.append(f)
    if not resolvers:
        raise AnalysisError("C05.2: no method consults the override dictionary and the constant's value")
    for f in resolvers:
        cons = construct_of(f, "override-precedence")
        fl = FuncFlow(ix, T, f)
        cfg = CFG(f.body)
        rets = [st for st in iter_stmts(f.body) if isinstance(st, ast.Return) and st.value is not None]

        def reads(expr, what):
            ids, _ = fl.depends(expr)
            for n in walk_no_nested(f.node):
                if id(n) in ids and isinstance(n, ast.Attribute) and n.attr == what:
                    return True
            return False

        # idiom 2: single dict.get(name, value)
        get_idiom = False
        for r in rets:
            v = r.value
            if isinstance(v, ast.Call) and isinstance(v.func, ast.Attribute) and v.func.attr == "get" and len(v.args) == 2 and reads(v.func.value, over_attr):
                if reads(v.args[0], "name") and reads(v.args[1], "value"):
                    get_idiom = True
        if get_idiom:
            rep.ok("C05.2", cons, "override.get(const.name, const.value)", f.loc())
            continue
        # the same idiom through a local name: v = override.get(name, value); return <v or something made of v>
        via = None
        for var, exprs in fl.defs.items():
            for v in exprs:
                if isinstance(v, ast.Call) and isinstance(v.func, ast.Attribute) and v.func.attr == "get" and len(v.args) == 2 and reads(v.func.value, over_attr) and reads(v.args[0], "name") and reads(v.args[1], "value"):
                    via = var
        if via is not None:
            users = [r for r in rets if via in names_in_expr(r.value)]

            def plain_use(r):
                v = r.value
                if isinstance(v, ast.Name) and v.id == via:
                    return True
                if isinstance(v, ast.Call) and len(v.args) == 1 and isinstance(v.args[0], ast.Name) and v.args[0].id == via:
                    for cs in T.callsites(f):
                        if cs.node is v and cs.targets and all(value_preserving(t) for t in cs.targets):
                            return True
                return False
            if users and all(plain_use(r) for r in users):
                rep.ok("C05.2", cons, "override.get(const.name, const.value) returned as is", f.loc())
            elif users:
                r = [r for r in users if not plain_use(r)][0]
                rep.violation("C05.2", cons, f"the value taken from the override dictionary is transformed before it is substituted (`{ast.unparse(r.value)}`): the circuit is not evaluated with the constant bound to its overriding value (e.g. a float override of an int-declared constant is truncated)", f"{f.path}:{r.lineno}")
            else:
                rep.undecided("C05.2", cons, "override lookup result is not returned", f.loc())
            continue
        decl = [r for r in rets if reads(r.value, "value") and not reads(r.value, over_attr)]
        over = [r for r in rets if reads(r.value, over_attr)]
        if not decl or not over:
            rep.undecided("C05.2", cons, "returns of the override value / declared value not recognised", f.loc())
            continue
        ok = False
        one_sided = None
        for st in iter_stmts(f.body):
            if not isinstance(st, ast.If):
                continue
            t = st.test
            is_member = isinstance(t, ast.Compare) and len(t.ops) == 1 and isinstance(t.ops[0], (ast.In, ast.NotIn)) and reads(t.comparators[0], over_attr)
            if not is_member:
                continue
            keyed_by_name = reads(t.left, "name")
            tn = cfg.node(st)
            hit_lbl = isinstance(t.ops[0], ast.In)
            # every declared-value return must be reached only through the "not overridden" edge
            edges = cfg.branch_edges(tn, not hit_lbl)
            if all(cfg.must_pass_edges(cfg.node(r), edges) for r in decl):
                # and the overridden branch returns the override value
                reach = set()
                for a, b in cfg.branch_edges(tn, hit_lbl):
                    reach |= cfg.reachable_from(b) | {b}
                if any(cfg.node(r) in reach for r in over) and not any(cfg.node(r) in reach and cfg.node(r) not in {cfg.node(o) for o in over} for r in decl):
                    if keyed_by_name:
                        ok = True
                    else:
                        one_sided = "the override lookup is not keyed by the constant's name"
        transformed = None
        for r in over:
            v = r.value
            if isinstance(v, ast.Name):
                d = fl.defs.get(v.id, [])
                v = d[0] if len(d) == 1 else v
            def is_plain(e):
                return isinstance(e, ast.Subscript) or (isinstance(e, ast.Call) and isinstance(e.func, ast.Attribute) and e.func.attr == "get") or isinstance(e, ast.Name)
            plain = is_plain(v)
            if not plain and isinstance(v, ast.Call) and len(v.args) == 1 and is_plain(v.args[0]):
                # a normaliser that provably returns its argument or a number equal to it (4.0 -> 4), as applied to declared values
                for cs in T.callsites(f):
                    if cs.node is v and cs.targets and all(value_preserving(t) for t in cs.targets):
                        plain = True
            if not plain:
                transformed = r
        if ok and transformed is not None:
            rep.violation("C05.2", cons, f"the overriding value is transformed before it is substituted (`{ast.unparse(transformed.value)}`): the circuit is not evaluated with the constant bound to its overriding value (e.g. a float override of an int-declared constant is truncated)", f"{f.path}:{transformed.lineno}")
        elif ok:
            rep.ok("C05.2", cons, "membership test on the override dictionary dominates the declared-value return; the override is substituted as given", f.loc())
        elif one_sided:
            rep.violation("C05.2", cons, one_sided, f.loc())
        else:
            rep.violation("C05.2", cons, "the declared value can be returned without consulting the override dictionary first", f.loc())

    # ------------------------------------------------------------ C05.10
    rep.rule("C05.10", "an overriding value is normalised by the same function the builder applies to a declared let value (4.0 stands for 4 in both), so that `override n=4.0` means what `let n 4.0` means", floor=1)
    bl = ix.functions.get("jaqalpaq.core.circuitbuilder.Builder.build_let")
    norm = set()
    if bl is not None:
        for cs in T.callsites(bl):
            if cs.kind == "constructor" and cs.classes and cs.classes[0].endswith(".Constant") and isinstance(cs.node, ast.Call) and len(cs.node.args) >= 2:
                a = cs.node.args[1]
                if isinstance(a, ast.Call):
                    for cs2 in T.callsites(bl):
                        if cs2.node is a:
                            norm |= {t.qualname for t in cs2.targets}
    for f in resolvers:
        cons = construct_of(f, "override-normalised")
        if not norm:
            rep.exempt("C05.10", cons, "declared let values are stored as given")
            continue
        used = set()
        fl10 = FuncFlow(ix, T, f)
        for cs in T.callsites(f):
            if not isinstance(cs.node, ast.Call):
                continue
            for a in cs.node.args:
                ids_, roots_ = fl10.depends(a)
                if any(isinstance(m, ast.Attribute) and m.attr == over_attr for e in [a] + list(roots_) for m in ast.walk(e)):
                    used |= {t.qualname for t in cs.targets}
        if used & norm:
            rep.ok("C05.10", cons, f"the override passes through {sorted(short_(q) for q in used & norm)}", f.loc())
        else:
            rep.violation("C05.10", cons, f"declared values are normalised by {sorted(short_(q) for q in norm)} (let n 4.0 is the integer 4) but an overriding value is substituted raw: `override n=4.0` for `register r[n]` or an index is rejected ('non-integer size 4.0') although the same program with `let n 4.0` is legal", f.loc(), witness="let n 4\nregister r[n]   with override {'n': 4.0}")

    # ------------------------------------------------------------ C05.11
    rep.rule("C05.11", "an overriding value that cannot be written in Jaqal (infinity, NaN) is rejected: the substituted circuit must have a text form", floor=1)
    for f in resolvers:
        cons = construct_of(f, "override-finite")
        cfg_ = CFG(f.body)
        okf = False
        for st in iter_stmts(f.body):
            if isinstance(st, ast.If) and any(isinstance(x, ast.Raise) for x in st.body):
                txt = ast.unparse(st.test)
                if "isfinite" in txt or "isinf" in txt or "isnan" in txt or "inf" in txt:
                    okf = True
        if okf:
            rep.ok("C05.11", cons, "a raising guard tests the overriding value for finiteness", f.loc())
        else:
            rep.violation("C05.11", cons, "`fill_in_let(c, {'a': float('inf')})` yields a circuit containing `Rz r[0] inf`, whose generated text the parser rejects (and with NaN and a let named nan it silently re-parses to another circuit)", f.loc(), witness="fill_in_let(circuit, {'a': float('inf')})")

    # ------------------------------------------------------------ C05.12
    rep.rule("C05.12", "let substitution never truncates a substituted value: no int()/round() of a resolved constant without an integrality test (a non-integral override used as an index or count must be refused, not rounded)", floor=1)
    n12 = 0
    for v_, t_ in trs:
        for f in t_.funcs:
            fl_ = t_.flows[f.qualname]
            for c in walk_no_nested(f.node):
                if not (isinstance(c, ast.Call) and isinstance(c.func, ast.Name) and c.func.id in ("int", "round", "floor", "trunc") and c.args):
                    continue
                a0 = c.args[0]
                ids_, roots_ = fl_.depends(a0)
                exprs = [a0] + list(roots_)
                from_const = any(isinstance(m, ast.Call) and isinstance(m.func, ast.Attribute) and m.func.attr in ("resolve_constant", "visit", "visit_Constant") for e in exprs for m in ast.walk(e)) or any(isinstance(m, ast.Attribute) and m.attr == over_attr for e in exprs for m in ast.walk(e))
                if not from_const:
                    continue
                n12 += 1
                tests = fl_.control_tests(c)
                integral = any((isinstance(m, ast.Call) and isinstance(m.func, ast.Attribute) and m.func.attr == "is_integer") or (isinstance(m, ast.Compare) and any(isinstance(k, ast.Call) and isinstance(k.func, ast.Name) and k.func.id == "int" for k in ast.walk(m))) for t in tests for m in ast.walk(t))
                cons = construct_of(f, f"truncation:{ast.unparse(c)[:40]}")
                if integral:
                    rep.ok("C05.12", cons, "conversion under an integrality test", f"{f.path}:{c.lineno}")
                else:
                    rep.violation("C05.12", cons, f"`{ast.unparse(c)}` truncates the substituted value: an override of 1.5 for an index becomes 1 and the gate runs on another qubit instead of the override being refused", f"{f.path}:{c.lineno}", witness="let n 0 ... Px q[n]   with override {'n': 1.5}")
    if n12 == 0:
        rep.ok("C05.12", "core.algorithm.fill_in_let:truncation", "no conversion of a substituted value")

    # ------------------------------------------------------------ C05.4
    rep.rule("C05.4", "IR constructor arguments that must be objects never receive an S-expression from a visit", floor=2)
    consumers = {}  # handler qualname -> (handler, stmt, [consumer descriptions])
    checked = 0
    for v, t in trs:
        for f in t.funcs:
            fl = t.flows[f.qualname]
            for cs in T.callsites(f):
                if cs.kind != "constructor" or not cs.classes or not isinstance(cs.node, ast.Call):
                    continue
                k = cs.classes[0]
                if k not in (REGISTER, QUBIT):
                    continue
                init_k = ix.find_method(k, "__init__")
                params = init_k.params[1:]
                for idx, a in list(enumerate(cs.node.args)) + [(None, kw) for kw in cs.node.keywords]:
                    pname = params[idx] if idx is not None and idx < len(params) else (a.arg if idx is None else None)
                    expr = a.value if idx is None else a
                    if (k, pname) not in FIELD_DOMAIN:
                        continue
                    roots = [expr] + (fl.defs.get(expr.id, []) if isinstance(expr, ast.Name) else [])
                    for r in roots:
                        for vcs in T.callsites(f):
                            if vcs.kind == "visit" and vcs.node is r:
                                checked += 1
                                desc = f"{construct_of(f)}:{ix.classes[k].name}({pname}=)"
                                for dom in FIELD_DOMAIN[(k, pname)]:
                                    for h in T.visit_targets(v, frozenset({dom}), include_subclasses=False):
                                        kinds = return_kinds(ctx, h)
                                        ent = consumers.setdefault(h.qualname, [h, kinds.get("sexpr"), []])
                                        if desc not in ent[2]:
                                            ent[2].append(desc)
    for hq, (h, st, descs) in sorted(consumers.items()):
        cons = construct_of(h, "returns-object")
        if st is not None:
            rep.violation("C05.4", cons, f"may return an S-expression (list) but its result is passed to {', '.join(descs)}, which needs an IR object: AttributeError inside the constructor", f"{h.path}:{st.lineno}")
        else:
            rep.ok("C05.4", cons, f"returns IR objects only; consumed by {', '.join(descs)}", h.loc())
    if not checked:
        rep.undecided("C05.4", cls_construct(ix, filler, "kinds"), "no visit result is passed to a Register/NamedQubit constructor")

    # ------------------------------------------------------------ C05.5
    rep.rule("C05.5", "macro parameters that shadow a constant are left alone", floor=2)
    cons = cls_construct(ix, filler, "shadowing")
    if CONSTANT in ix.mro(PARAMETER) or PARAMETER in ix.mro(CONSTANT):
        rep.violation("C05.5", cons, "Parameter and Constant are related by inheritance: the Constant handler would resolve macro parameters", ix.classes[PARAMETER].loc())
    else:
        h = tr.has_handler(filler, PARAMETER)
        if h is None:
            if tr.default_passthrough(filler):
                rep.ok("C05.5", cons, "Parameter objects dispatch to visit_default, which returns them unchanged")
            else:
                rep.undecided("C05.5", cons, "visit_default is not a pass-through")
        else:
            resolves = any(cs.kind == "method" and any(t.name == "resolve_constant" for t in cs.targets) for cs in T.callsites(h))
            if resolves:
                rep.violation("C05.5", cons, f"{construct_of(h)} resolves Parameter objects like constants: a macro parameter that shadows a let is substituted", h.loc())
            else:
                rep.ok("C05.5", cons, f"Parameter handler {construct_of(h)} does not resolve constants")
    mh = ix.find_method(filler, "visit_Macro")
    cons = cls_construct(ix, filler, "visit_Macro:parameter-names")
    if mh is None:
        rep.undecided("C05.5", cons, "no Macro handler")
    else:
        # the S-expression must carry parameter names (strings) and the *visited* body
        fl = tr.flows[mh.qualname]
        visits_body = position_visited(ctx, tr, MACRO, "body")
        if visits_body:
            rep.ok("C05.5", cons, "macro body is visited")
        else:
            rep.violation("C05.5", cons, "macro bodies are not visited: constants inside macros survive", mh.loc())
