"""C17 -- Jaqal text, the builder API and Q-syntax build the same circuit (decided clauses)."""

from __future__ import annotations

import ast
from typing import Dict, Optional, Set, Tuple

from ..index import AnalysisError
from ..cfg import CFG, walk_no_nested, iter_stmts
from ..fieldflow import FuncFlow, names_in
from ..lexer import extract_parser
from .common import construct_of, cls_construct, short

BUILDER = "jaqalpaq.core.circuitbuilder.Builder"
CB_MOD = "jaqalpaq.core.circuitbuilder"
QS_MOD = "jaqalpaq.qsyntax.qsyntax"
PRODUCER_MODULES = [
    "jaqalpaq.parser.slyparse", "jaqalpaq.qsyntax.qsyntax", "jaqalpaq.core.circuitbuilder",
    "jaqalpaq.core.algorithm.fill_in_let", "jaqalpaq.core.algorithm.fill_in_map",
]
EXPERIMENTAL_HEADS = {"branch", "case"}
# the S-expression vocabulary documented in circuitbuilder.build()
KNOWN_HEADS = {
    "circuit", "macro", "let", "register", "map", "loop", "gate", "sequential_block", "parallel_block",
    "subcircuit_block", "array_item", "usepulses", "branch", "case", "unscheduled_block",
}
ANY = (0, None)



def _first_template(c):
    for a, v in c.class_attrs.items():
        if "let" in a and "template" in a and isinstance(v, ast.Constant) and isinstance(v.value, str):
            try:
                return v.value.format(0)
            except Exception:
                pass
    return "__c0"

def consumer_arity(fi) -> Tuple[Optional[Set[int]], Tuple[int, Optional[int]]]:
    """(exact set or None, (min, max or None)) of the number of arguments build_<head> accepts."""
    s0 = fi.params[1] if len(fi.params) > 1 else None
    # direct tuple unpacking of sexpression.args
    for st in iter_stmts(fi.body):
        if isinstance(st, ast.Assign) and isinstance(st.value, ast.Attribute) and st.value.attr == "args" and isinstance(st.targets[0], (ast.Tuple, ast.List)):
            elts = st.targets[0].elts
            n_fixed = sum(1 for e in elts if not isinstance(e, ast.Starred))
            if any(isinstance(e, ast.Starred) for e in elts):
                return None, (n_fixed, None)
            return {n_fixed}, (n_fixed, n_fixed)
    # args = list(sexpression.args) + length tests
    argvar = None
    for st in iter_stmts(fi.body):
        if isinstance(st, ast.Assign) and isinstance(st.targets[0], ast.Name) and any(isinstance(n, ast.Attribute) and n.attr == "args" for n in ast.walk(st.value)):
            argvar = st.targets[0].id
    if argvar is None:
        return None, ANY
    exact: Set[int] = set()
    lo = 0
    cfg = CFG(fi.body)
    final_raise = isinstance(fi.body[-1], ast.Raise)
    for st in iter_stmts(fi.body):
        if isinstance(st, ast.If):
            for n in ast.walk(st.test):
                if isinstance(n, ast.Compare) and isinstance(n.left, ast.Call) and isinstance(n.left.func, ast.Name) and n.left.func.id == "len" and n.left.args and isinstance(n.left.args[0], ast.Name) and n.left.args[0].id == argvar and isinstance(n.comparators[0], ast.Constant):
                    k = n.comparators[0].value
                    op = n.ops[0]
                    raises = cfg.branch_never_returns(cfg.node(st), True)
                    if isinstance(op, ast.Eq) and not raises and any(isinstance(s, ast.Return) for s in st.body):
                        exact.add(k)
                    elif isinstance(op, ast.NotEq) and raises:
                        return {k}, (k, k)
                    elif isinstance(op, ast.Lt) and raises:
                        lo = max(lo, k)
    if exact and final_raise:
        return exact, (min(exact), max(exact))
    for n in walk_no_nested(fi.node):
        if isinstance(n, ast.Subscript) and isinstance(n.value, ast.Name) and n.value.id == argvar:
            if isinstance(n.slice, ast.Constant) and isinstance(n.slice.value, int) and n.slice.value >= 0:
                lo = max(lo, n.slice.value + 1)
    return None, (lo, None)


def accepts(ar, lengths: Tuple[int, Optional[int]], exact_len: Optional[Set[int]]) -> Optional[str]:
    """None if compatible, else a description."""
    exact, (lo, hi) = ar
    if exact_len is not None:
        bad = [n for n in exact_len if (exact is not None and n not in exact) or n < lo or (hi is not None and n > hi)]
        if bad:
            return f"emits {sorted(bad)} argument(s) but the consumer accepts {sorted(exact) if exact else f'>= {lo}'}"
        return None
    plo, phi = lengths
    if exact is not None:
        if phi is not None and plo == phi and plo not in exact:
            return f"emits {plo} argument(s) but the consumer accepts {sorted(exact)}"
        if plo > max(exact):
            return f"emits at least {plo} arguments but the consumer accepts {sorted(exact)}"
        return None
    if phi is not None and phi < lo:
        return f"emits at most {phi} argument(s) but the consumer needs at least {lo}"
    return None


def run(ctx, rep):
    ix, T = ctx.ix, ctx.typer
    single_pulse_loader(ctx, rep)
    from .common import check_falsy_zero
    check_falsy_zero(ctx, rep, "C17.7", ['jaqalpaq.parser.slyparse', 'jaqalpaq.core.circuitbuilder', 'jaqalpaq.qsyntax'], floor_positions=10)
    builder = ix.cls(BUILDER)
    consumers: Dict[str, tuple] = {}
    for mname, fi in builder.methods.items():
        if mname.startswith("build_") and mname != "build_block":
            consumers[mname[len("build_"):]] = (fi, consumer_arity(fi))
    rep.analysed["consumers"] = {h: (sorted(a[0]) if a[0] else None, a[1]) for h, (f, a) in consumers.items()}
    if len(consumers) < 10:
        raise AnalysisError("C17.1: fewer than ten build_<head> methods found")

    # ------------------------------------------------------------ C17.1
    rep.rule("C17.1", "every S-expression head emitted by the parser, Q-syntax, the OO builder and the re-serialising passes is consumed by a build_<head> of matching arity", floor=30)
    # length sets of parser nonterminals (for starred elements)
    pm = extract_parser(ix)
    nt_len: Dict[str, Set[int]] = {}
    changed = True
    rounds = 0
    while changed and rounds < 6:
        changed = False
        rounds += 1
        for p in pm.productions:
            tree = p.func.params[1] if len(p.func.params) > 1 else None
            for st in iter_stmts(p.func.body):
                if isinstance(st, ast.Return) and isinstance(st.value, (ast.List, ast.Tuple)):
                    lens = display_lengths(st.value, tree, nt_len)
                    if lens is not None and not lens <= nt_len.get(p.lhs, set()):
                        nt_len.setdefault(p.lhs, set()).update(lens)
                        changed = True
    n_displays = 0
    for f in ix.functions.values():
        if f.module not in PRODUCER_MODULES or isinstance(f.node, ast.Lambda):
            continue
        if f.cls == BUILDER or (f.cls and f.cls.endswith(".SExpression")):
            continue
        fl = None
        tree = f.params[1] if (f.module.endswith("slyparse") and len(f.params) > 1) else None
        for n in walk_no_nested(f.node):
            if not isinstance(n, (ast.List, ast.Tuple)) or not n.elts:
                continue
            h = n.elts[0]
            heads = None
            if isinstance(h, ast.Constant) and isinstance(h.value, str):
                heads = {h.value}
            elif isinstance(h, ast.Name):
                fl = fl or FuncFlow(ix, T, f)
                ds = fl.defs.get(h.id, [])
                if ds and all(isinstance(d, ast.Constant) and isinstance(d.value, str) for d in ds):
                    heads = {d.value for d in ds}
            if not heads or not (heads & (set(consumers) | KNOWN_HEADS) or any(x.endswith("_block") for x in heads)):
                continue
            if isinstance(n.ctx, ast.Store):
                continue
            n_displays += 1
            for head in sorted(heads):
                cons = construct_of(f, f"emits:{head}")
                loc = f"{f.path}:{n.lineno}"
                if head not in consumers:
                    rep.violation("C17.1", cons, f"emits an S-expression with head `{head}` but Builder has no build_{head}: building fails with 'Cannot handle object of type {head}'", loc)
                    continue
                fixed = sum(1 for e in n.elts[1:] if not isinstance(e, ast.Starred))
                starred = [e for e in n.elts[1:] if isinstance(e, ast.Starred)]
                exact_len = None
                if not starred:
                    exact_len = {fixed}
                    lengths = (fixed, fixed)
                else:
                    # try parser nonterminal lengths
                    tot: Optional[Set[int]] = {fixed}
                    for e in starred:
                        ls = None
                        if tree and isinstance(e.value, ast.Attribute) and isinstance(e.value.value, ast.Name) and e.value.value.id == tree:
                            ls = nt_len.get(e.value.attr)
                        if ls is None:
                            tot = None
                            break
                        tot = {a + b for a in tot for b in ls}
                    exact_len = tot
                    lengths = (fixed, None)
                why = accepts(consumers[head][1], lengths, exact_len)
                if why is None:
                    rep.ok("C17.1", cons, f"{len(n.elts) - 1} element(s) after the head" + (" (starred)" if starred else ""), loc)
                elif head in EXPERIMENTAL_HEADS:
                    rep.info("C17.1", cons, f"experimental node: {why}", loc)
                else:
                    rep.violation("C17.1", cons, f"`{ast.unparse(n)[:80]}` {why} (build_{head})", loc)
    rep.analysed["sexpression_displays"] = n_displays
    # default-argument paths must not emit both the default and the (None) argument
    for f in ix.functions.values():
        if f.module != QS_MOD or isinstance(f.node, ast.Lambda):
            continue
        for st_list in _stmt_lists(f.node):
            for i, st in enumerate(st_list):
                if not isinstance(st, ast.If) or st.orelse:
                    continue
                t = st.test
                if not (isinstance(t, ast.Compare) and isinstance(t.ops[0], ast.Is) and isinstance(t.comparators[0], ast.Constant) and t.comparators[0].value is None):
                    continue
                subject = ast.unparse(t.left)
                apps = [n for s in st.body for n in ast.walk(s) if isinstance(n, ast.Call) and isinstance(n.func, ast.Attribute) and n.func.attr == "append"]
                exits = any(isinstance(s, (ast.Return, ast.Raise)) for s in st.body[-1:])
                if not apps or exits:
                    continue
                lst = ast.unparse(apps[0].func.value)
                nxt = st_list[i + 1] if i + 1 < len(st_list) else None
                cons = construct_of(f, "default-argument")
                if nxt is not None and isinstance(nxt, ast.Expr) and isinstance(nxt.value, ast.Call) and isinstance(nxt.value.func, ast.Attribute) and nxt.value.func.attr == "append" and ast.unparse(nxt.value.func.value) == lst and subject in ast.unparse(nxt.value):
                    rep.violation("C17.1", cons, f"when `{subject}` is None the default is appended to `{lst}` AND then `{ast.unparse(nxt.value)}` appends the None argument as well: the S-expression has one element too many (a None statement inside the block)", f"{f.path}:{nxt.lineno}")
                else:
                    rep.ok("C17.1", cons, "the default and the given argument are alternatives", f"{f.path}:{st.lineno}")

    # ------------------------------------------------------------ C17.2
    rep.rule("C17.2", "every parameter of the public builder / Q methods reaches the emitted S-expression or the returned object", floor=20)
    targets = []
    for c in ix.classes.values():
        if (c.module == CB_MOD and c.name.endswith("Builder") and c.name != "Builder") or (c.module == QS_MOD and c.name == "Q"):
            for mname, fi in c.methods.items():
                if mname.startswith("_") and mname != "__init__":
                    continue
                targets.append(fi)
    for fi in targets:
        fl = FuncFlow(ix, T, fi)
        used_in_nested = set()
        for g in ix.functions.values():
            if g.parent == fi.qualname:
                used_in_nested |= {n.id for n in ast.walk(g.node) if isinstance(n, ast.Name)}
        for p in fi.all_params[1:]:
            cons = construct_of(fi, f"param:{p}")
            used = p in fl.relevant_names or p in used_in_nested
            # context-manager style methods (yield): arguments used after the yield count
            if not used:
                used = any(isinstance(n, ast.Name) and n.id == p and isinstance(n.ctx, ast.Load) for n in walk_no_nested(fi.node)) and any(isinstance(n, (ast.Yield,)) for n in walk_no_nested(fi.node))
            if used:
                rep.ok("C17.2", cons, "reaches the result", fi.loc())
            else:
                rep.violation("C17.2", cons, f"the documented parameter `{p}` of {fi.cls.split('.')[-1]}.{fi.name}() is accepted and ignored: the circuit built through this front end differs from the same program written as Jaqal text", fi.loc())

    # ------------------------------------------------------------ C17.3
    rep.rule("C17.3", "generated names avoid every user-chosen name (lets and registers share one namespace)", floor=2)
    namer = [c for c in ix.classes.values() if c.module == QS_MOD and any("template" in a for a in c.class_attrs)]
    if not namer:
        rep.undecided("C17.3", "qsyntax.qsyntax:Namer", "no auto-namer class found")
    for c in namer:
        init = c.methods.get("__init__")
        name_attrs = sorted({a for a, lst in c.self_attrs.items() for fi, v in lst if fi.name == "__init__" and a.endswith("names")})
        chooser = None
        for mname, fi in c.methods.items():
            if any(isinstance(st, ast.While) for st in iter_stmts(fi.body)):
                chooser = fi
        if chooser is not None and len(name_attrs) < 2:
            # Another shape of the same obligation: the chooser tests the candidate against a collection kept on the
            # namer.  The collection has to hold EVERY user name before the first name is made up; one that starts
            # empty and is only filled by the very methods that make names up avoids the names seen so far, so an
            # anonymous object declared before a user object of the auto-namer's form takes that object's name.
            wl0 = [st for st in iter_stmts(chooser.body) if isinstance(st, ast.While)][0]
            tested = set()
            for t in ast.walk(wl0):
                if isinstance(t, ast.Compare) and isinstance(t.ops[0], (ast.NotIn, ast.In)):
                    for m in ast.walk(t.comparators[0]):
                        if isinstance(m, ast.Attribute) and isinstance(m.value, ast.Name) and m.value.id == "self":
                            tested.add(m.attr)
            fillers, empty_init = {}, {}
            for a in tested:
                vals = [(fi, v) for fi, v in c.self_attrs.get(a, [])]
                empty_init[a] = bool(vals) and all(
                    fi.name == "__init__" and (
                        (isinstance(v, ast.Call) and isinstance(v.func, ast.Name) and v.func.id in ("set", "list", "dict") and not v.args)
                        or (isinstance(v, (ast.List, ast.Set, ast.Dict, ast.Tuple)) and not getattr(v, "elts", getattr(v, "keys", None)))
                    ) for fi, v in vals)
                fillers[a] = set()
                for mname, fi in c.methods.items():
                    for n in walk_no_nested(fi.node):
                        if isinstance(n, ast.Call) and isinstance(n.func, ast.Attribute) and n.func.attr in ("add", "append", "update", "extend", "insert") \
                                and isinstance(n.func.value, ast.Attribute) and n.func.value.attr == a and isinstance(n.func.value.value, ast.Name) and n.func.value.value.id == "self":
                            fillers[a].add(mname)
                        if isinstance(n, ast.AugAssign) and isinstance(n.target, ast.Attribute) and n.target.attr == a:
                            fillers[a].add(mname)
            choosing = {mname for mname, fi in c.methods.items() if any(
                isinstance(n, ast.Call) and isinstance(n.func, ast.Attribute) and n.func.attr == chooser.name for n in walk_no_nested(fi.node))}
            cons = construct_of(chooser, "collection-complete-before-naming")
            if tested and all(empty_init.get(a) for a in tested) and all(fillers[a] and fillers[a] <= choosing for a in tested):
                rep.violation("C17.3", cons, f"the candidate is tested against self.{', self.'.join(sorted(tested))}, which starts empty and is filled only by {sorted(set().union(*fillers.values()))} -- the methods that make names up: only the names handed out so far are avoided, so an anonymous let declared before a user let or register called `{_first_template(c)}` takes that name and the circuit is refused (Object already exists), while the same program as text or through the builder is accepted", chooser.loc(),
                              witness=f"Q.let(1); Q.let(2, '{_first_template(c)}')")
            else:
                rep.undecided("C17.3", cons, "the collection the chooser tests against is not recognised as complete or incomplete")
            continue
        if chooser is None or len(name_attrs) < 2:
            rep.undecided("C17.3", cls_construct(ix, c.qualname), "chooser loop or user-name lists not recognised")
            continue
        # the loop exits only on a name not in the collection
        cons = construct_of(chooser, "loop-exit")
        wl = [st for st in iter_stmts(chooser.body) if isinstance(st, ast.While)][0]
        exits = [s for s in iter_stmts(wl.body) if isinstance(s, (ast.Break, ast.Return))]
        guarded = all(any(isinstance(t, ast.Compare) and isinstance(t.ops[0], ast.NotIn) for t in FuncFlow(ix, T, chooser).control_tests(s)) for s in exits) and bool(exits)
        if guarded:
            rep.ok("C17.3", cons, "the loop ends only with a name that is not in the collection", chooser.loc())
        else:
            rep.violation("C17.3", cons, "the chooser can return a name without testing it against the user's names", chooser.loc())
        coll_param = chooser.params[-1]
        for mname, fi in c.methods.items():
            if fi is chooser:
                continue
            fl = FuncFlow(ix, T, fi)
            for n in walk_no_nested(fi.node):
                if isinstance(n, ast.Call) and isinstance(n.func, ast.Attribute) and n.func.attr == chooser.name:
                    arg = n.args[-1] if n.args else None
                    ids, roots = fl.depends(arg) if arg is not None else (set(), [])
                    seen = {m.attr for r in roots for m in ast.walk(r) if isinstance(m, ast.Attribute) and m.attr in name_attrs}
                    cons = construct_of(fi, "avoids-all-user-names")
                    if set(name_attrs) <= seen:
                        rep.ok("C17.3", cons, f"checks against {name_attrs}", f"{fi.path}:{n.lineno}")
                    else:
                        rep.violation("C17.3", cons, f"the generated name is only checked against self.{', self.'.join(sorted(seen)) or '(nothing)'}, not against {sorted(set(name_attrs) - seen)}: a user name of the auto-namer's form in the other list collides (lets and registers share one namespace in the builder's context)", f"{fi.path}:{n.lineno}")

    # ------------------------------------------------------------ C17.5
    rep.rule("C17.5", "implicit prepare/measure are added together, exactly when the body does not start with a prepare or a subcircuit", floor=3)
    cfs = ix.functions.get(f"{QS_MOD}.circuit_from_stack")
    if cfs is None:
        raise AnalysisError("C17.5: circuit_from_stack vanished")
    fl = FuncFlow(ix, T, cfs)
    cfg = CFG(cfs.body)
    guards = []
    for st in iter_stmts(cfs.body):
        if isinstance(st, ast.If) and isinstance(st.test, ast.Name):
            bodytxt = " ".join(ast.unparse(s) for s in st.body)
            if "prepare" in bodytxt or "measure" in bodytxt:
                guards.append(st)
    cons = construct_of(cfs, "implicit-bracketing")
    loops = [st for st in iter_stmts(cfs.body) if isinstance(st, ast.For) and any(isinstance(n, ast.Call) and isinstance(n.func, ast.Attribute) and n.func.attr == "build" for s in st.body for n in ast.walk(s))]
    if len(guards) == 2 and guards[0].test.id == guards[1].test.id and loops:
        first, second = guards
        txt1 = " ".join(ast.unparse(s) for s in first.body)
        txt2 = " ".join(ast.unparse(s) for s in second.body)
        order_ok = cfg.dominates(cfg.node(first), cfg.node(loops[-1])) and cfg.dominates(cfg.node(loops[-1]), cfg.node(second))
        if "prepare" in txt1 and "measure" in txt2 and order_ok:
            rep.ok("C17.5", cons, f"`if {first.test.id}:` prepare before the statements and measure after them", f"{cfs.path}:{first.lineno}")
        else:
            rep.violation("C17.5", cons, "the implicit prepare is not inserted before, or the implicit measure not after, the user's statements", f"{cfs.path}:{first.lineno}")
        flag = first.test.id
        defs = fl.defs.get(flag, [])
        dtxt = " ".join(ast.unparse(d) for d in defs)
        cons2 = construct_of(cfs, "implicit-flag")
        # second idiom: the answer of the first statement that has one (an empty block has none)
        #   for stmt in statements: first = stmt.starts_with_prepare(..); if first is not None: break
        #   flag = not first
        first_decided = False
        if len(defs) == 1 and isinstance(defs[0], ast.UnaryOp) and isinstance(defs[0].op, ast.Not) and isinstance(defs[0].operand, ast.Name):
            v = defs[0].operand.id
            for lp in iter_stmts(cfs.body):
                if isinstance(lp, ast.For) and any(isinstance(a, ast.Assign) and any(isinstance(t_, ast.Name) and t_.id == v for t_ in a.targets) and "starts_with_prepare" in ast.unparse(a.value) for a in lp.body):
                    brk = [i for i in lp.body if isinstance(i, ast.If) and any(isinstance(b_, ast.Break) for b_ in i.body)]
                    if brk and isinstance(brk[0].test, ast.Compare) and isinstance(brk[0].test.ops[0], ast.IsNot) and v in ast.unparse(brk[0].test.left):
                        first_decided = True
        if "starts_with_prepare" in dtxt and "not" in dtxt and ("len(" in dtxt or "not statements" in dtxt) and "any(" not in dtxt and "all(" not in dtxt:
            rep.violation("C17.5", cons2, f"`{flag} = {dtxt[:80]}` lets statements[0] decide even when it is an empty block: `with Q.loop(2): pass` followed by subcircuits is wrapped in a second prepare_all/measure_all and cannot run, while the same program as text does", f"{cfs.path}:{first.lineno}", witness="with Q.loop(2): pass; with Q.subcircuit(): ...")
        elif first_decided:
            rep.ok("C17.5", cons2, f"`{flag} = {dtxt[:60]}`: the answer of the first statement that is not an empty block", f"{cfs.path}:{first.lineno}")
        else:
            rep.violation("C17.5", cons2, f"the flag `{flag}` is not `empty body or not <first statement>.starts_with_prepare(...)`: the body is wrapped (or not) according to something else than what it begins with", f"{cfs.path}:{first.lineno}")
    else:
        rep.violation("C17.5", cons, "the implicit prepare and measure are not guarded by one and the same flag around the statement loop: one can be added without the other", cfs.loc())
    for c in ix.classes.values():
        if c.module != QS_MOD or "starts_with_prepare" not in c.methods:
            continue
        fi = c.methods["starts_with_prepare"]
        rets = [s for s in iter_stmts(fi.body) if isinstance(s, ast.Return)]
        cons = construct_of(fi, "starts_with_prepare")
        if "Subcircuit" in c.name:
            if rets and all(isinstance(r.value, ast.Constant) and r.value.value is True for r in rets):
                rep.ok("C17.5", cons, "a subcircuit block always starts with a prepare", fi.loc())
            else:
                rep.violation("C17.5", cons, "a subcircuit block must report that it starts with a prepare (otherwise it is wrapped in a second prepare/measure pair)", fi.loc())
        elif c.name == "QBlock":
            first_only = any(isinstance(r.value, (ast.BoolOp, ast.Call)) and any(isinstance(m, ast.Call) and isinstance(m.func, ast.Attribute) and m.func.attr == "starts_with_prepare" and isinstance(m.func.value, ast.Subscript) for m in ast.walk(r.value)) for r in rets)
            delegates = False
            if first_only:
                rep.violation("C17.5", cons, "QBlock.starts_with_prepare asks its first statement only and answers False for an empty block: a leading empty loop or block decides that the body does not begin with a prepare", fi.loc())
                continue
            # the first answer: the first answer that is not None, walking the statements in order
            for lp in iter_stmts(fi.body):
                if isinstance(lp, ast.For) and "statements" in ast.unparse(lp.iter) and not any(isinstance(m, ast.Call) and isinstance(m.func, ast.Name) and m.func.id in ("reversed", "sorted") for m in ast.walk(lp.iter)):
                    asg = [a for a in lp.body if isinstance(a, ast.Assign) and "starts_with_prepare" in ast.unparse(a.value)]
                    ret_in = [i for i in lp.body if isinstance(i, ast.If) and isinstance(i.test, ast.Compare) and isinstance(i.test.ops[0], ast.IsNot) and any(isinstance(r_, ast.Return) for r_ in i.body)]
                    if asg and ret_in:
                        delegates = True
            if delegates:
                rep.ok("C17.5", cons, "a block starts with a prepare iff its first statement does (recursively)", fi.loc())
            else:
                rep.violation("C17.5", cons, "QBlock.starts_with_prepare does not delegate to its first statement: a body whose first statement is a nested block that begins with a prepare/subcircuit is wrapped in a second prepare/measure pair", fi.loc())
        elif "GateCall" in c.name:
            ok = rets and all(isinstance(r.value, ast.Compare) and isinstance(r.value.ops[0], ast.Eq) and {"name"} <= {m.attr for m in ast.walk(r.value) if isinstance(m, ast.Attribute)} for r in rets)
            if ok:
                rep.ok("C17.5", cons, "compares the gate's name with the prepare gate", fi.loc())
            else:
                rep.violation("C17.5", cons, "a gate call must compare its own name with the prepare gate's name", fi.loc())


    # ------------------------------------------------------------ C17.6
    rep.rule("C17.6", "Q objects used as identity keys when naming lets/registers have identity equality", floor=2)
    for n in ast.walk(cfs.node):
        if isinstance(n, ast.If) and isinstance(n.test, ast.Call) and isinstance(n.test.func, ast.Name) and n.test.func.id == "isinstance" and len(n.test.args) == 2:
            obj, klass = n.test.args
            rets = [s_ for s_ in n.body if isinstance(s_, ast.Return) and isinstance(s_.value, ast.Subscript) and isinstance(s_.value.slice, ast.Name) and isinstance(obj, ast.Name) and s_.value.slice.id == obj.id]
            if not rets:
                continue
            r = ix.resolve_expr(QS_MOD, klass)
            if not r or r[0] != "class":
                continue
            k = r[1]
            cons = cls_construct(ix, k, "identity-key")
            eqm = ix.find_method(k, "__eq__") or ix.find_method(k, "__hash__")
            if eqm is not None:
                rep.violation("C17.6", cons, f"{ix.classes[k].name} objects are the keys of `{ast.unparse(rets[0].value.value)}` in circuit_from_stack, but the class defines {eqm.name}: two distinct anonymous objects with equal contents share one key, so every use resolves to the last one", eqm.loc())
            else:
                rep.ok("C17.6", cons, "no __eq__/__hash__: distinct objects are distinct keys", ix.classes[k].loc())


def display_lengths(node, tree, nt_len) -> Optional[Set[int]]:
    tot = {0}
    for e in node.elts:
        if isinstance(e, ast.Starred):
            if tree and isinstance(e.value, ast.Attribute) and isinstance(e.value.value, ast.Name) and e.value.value.id == tree and e.value.attr in nt_len:
                tot = {a + b for a in tot for b in nt_len[e.value.attr]}
            else:
                return None
        else:
            tot = {a + 1 for a in tot}
    return tot


def _stmt_lists(fn):
    out = []

    def rec(stmts):
        out.append(stmts)
        for st in stmts:
            if isinstance(st, (ast.FunctionDef, ast.ClassDef)):
                continue
            for fld in ("body", "orelse", "finalbody"):
                sub = getattr(st, fld, None)
                if sub:
                    rec(sub)
            for h in getattr(st, "handlers", []) or []:
                rec(h.body)

    rec(fn.body)
    return out


def single_pulse_loader(ctx, rep):
    """C17.8: the three front ends agree on which pulse definitions a usepulses statement brings in only if they
    resolve the module name the same way (relative names with a leading dot, import path, reload rules)."""
    ix, T = ctx.ix, ctx.typer
    rep.rule("C17.8", "every front end resolves the module of a usepulses statement through the library's one loader (jaqalpaq._import), never with importlib directly", floor=1)
    n = 0
    for f in ix.functions.values():
        if isinstance(f.node, ast.Lambda) or not f.module.startswith("jaqalpaq.") or f.module in ("jaqalpaq._import",) or f.module.startswith(("jaqalpaq.emulator.pygsti", "jaqalpaq.ipc", "jaqalpaq._cli")):
            continue
        for nd in walk_no_nested(f.node):
            if isinstance(nd, ast.Call) and ((isinstance(nd.func, ast.Attribute) and nd.func.attr in ("import_module", "__import__")) or (isinstance(nd.func, ast.Name) and nd.func.id in ("__import__", "import_module"))):
                if nd.args and isinstance(nd.args[0], ast.Constant):
                    continue
                n += 1
                rep.violation("C17.8", construct_of(f, f"direct-import:{ast.unparse(nd)[:40]}"), f"`{ast.unparse(nd)}` imports a program-supplied module name directly: a relative name (`.mygates`) cannot be imported this way, so Q-syntax drops or rejects a usepulses statement that text and builder load", f"{f.path}:{nd.lineno}", witness="Q.usepulses('.mygates')  vs  from .mygates usepulses *")
    users = [f for f in ix.functions.values() if any(isinstance(m, ast.Name) and m.id in ("get_jaqal_gates", "jaqal_import") for m in ast.walk(f.node)) and f.module != "jaqalpaq._import"]
    if not users:
        raise AnalysisError("C17.8: nobody uses the loader of jaqalpaq._import (anchor vanished)")
    if n == 0:
        rep.ok("C17.8", "front-ends:pulse-loader", f"pulse modules are loaded through jaqalpaq._import only ({', '.join(sorted(short(u.qualname) for u in users)[:6])})")
