"""E1 -- program index over the jaqalpaq package (pure ``ast``).

Everything takes a *source map* ``{relative path -> text}`` so the self-test
harness can analyse in-memory variants.
"""

from __future__ import annotations

import ast
import os
from dataclasses import dataclass, field
from typing import Dict, List, Optional, Tuple

from . import REPO, SRC_PREFIX


class AnalysisError(Exception):
    """The analysis itself is broken (vanished anchor, unparsable source ...)."""


def load_sources(repo: str = REPO) -> Dict[str, str]:
    root = os.path.join(repo, SRC_PREFIX)
    if not os.path.isdir(root):
        raise AnalysisError(f"source root {root} not found")
    out = {}
    for dirpath, dirnames, filenames in os.walk(root):
        dirnames[:] = sorted(d for d in dirnames if d != "__pycache__")
        for fn in sorted(filenames):
            if fn.endswith(".py"):
                p = os.path.join(dirpath, fn)
                rel = os.path.relpath(p, repo)
                with open(p, encoding="utf-8") as fd:
                    out[rel] = fd.read()
    if not out:
        raise AnalysisError(f"no python sources under {root}")
    return out


def modname_of(relpath: str) -> str:
    p = relpath
    if p.startswith("src/"):
        p = p[4:]
    p = p[:-3]
    parts = p.split("/")
    if parts[-1] == "__init__":
        parts = parts[:-1]
    return ".".join(parts)


@dataclass
class FuncInfo:
    qualname: str
    module: str
    cls: Optional[str]
    name: str
    node: ast.AST  # FunctionDef | Lambda
    parent: Optional[str] = None  # enclosing function qualname
    decorators: List[str] = field(default_factory=list)
    path: str = ""

    @property
    def is_property(self):
        return "property" in self.decorators

    @property
    def is_classmethod(self):
        return "classmethod" in self.decorators

    @property
    def is_staticmethod(self):
        return "staticmethod" in self.decorators

    @property
    def lineno(self):
        return getattr(self.node, "lineno", 0)

    @property
    def params(self) -> List[str]:
        a = self.node.args
        return [x.arg for x in a.posonlyargs + a.args]

    @property
    def all_params(self) -> List[str]:
        a = self.node.args
        out = [x.arg for x in a.posonlyargs + a.args]
        if a.vararg:
            out.append(a.vararg.arg)
        out += [x.arg for x in a.kwonlyargs]
        if a.kwarg:
            out.append(a.kwarg.arg)
        return out

    @property
    def body(self):
        if isinstance(self.node, ast.Lambda):
            return [ast.Return(value=self.node.body)]
        return self.node.body

    def loc(self):
        return f"{self.path}:{self.lineno}"

    def __hash__(self):
        return hash(self.qualname)

    def __eq__(self, other):
        return isinstance(other, FuncInfo) and other.qualname == self.qualname


@dataclass
class ClassInfo:
    qualname: str
    name: str
    module: str
    node: ast.ClassDef
    path: str
    base_exprs: List[ast.expr] = field(default_factory=list)
    bases: List[str] = field(default_factory=list)  # qualname or "ext:<dotted>"
    methods: Dict[str, FuncInfo] = field(default_factory=dict)  # last definition wins
    methods_all: Dict[str, List[FuncInfo]] = field(default_factory=dict)
    props: set = field(default_factory=set)
    class_attrs: Dict[str, ast.expr] = field(default_factory=dict)
    self_attrs: Dict[str, list] = field(default_factory=dict)  # name -> [(FuncInfo, value expr|None)]

    def loc(self):
        return f"{self.path}:{self.node.lineno}"


@dataclass
class ModuleInfo:
    name: str
    path: str
    tree: ast.Module
    source: str
    is_package: bool
    bindings: Dict[str, tuple] = field(default_factory=dict)
    star_imports: List[str] = field(default_factory=list)
    all_names: Optional[List[str]] = None


def dotted(expr) -> Optional[str]:
    """a.b.c -> 'a.b.c' for Name/Attribute chains, else None."""
    parts = []
    while isinstance(expr, ast.Attribute):
        parts.append(expr.attr)
        expr = expr.value
    if isinstance(expr, ast.Name):
        parts.append(expr.id)
        return ".".join(reversed(parts))
    return None


def decorator_names(node) -> List[str]:
    out = []
    for d in getattr(node, "decorator_list", []):
        if isinstance(d, ast.Call):
            d = d.func
        n = dotted(d)
        if n:
            out.append(n.split(".")[-1] if n.endswith((".setter", ".getter")) else n)
    return out


class Index:
    def __init__(self, sources: Dict[str, str]):
        self.sources = sources
        self.modules: Dict[str, ModuleInfo] = {}
        self.classes: Dict[str, ClassInfo] = {}
        self.functions: Dict[str, FuncInfo] = {}
        self.func_of_node: Dict[int, FuncInfo] = {}
        self.class_of_node: Dict[int, ClassInfo] = {}
        self._mro_cache: Dict[str, List[str]] = {}
        self._sub_cache: Dict[str, List[str]] = {}
        for rel, text in sorted(sources.items()):
            try:
                tree = ast.parse(text, filename=rel)
            except SyntaxError as ex:
                raise AnalysisError(f"cannot parse {rel}: {ex}")
            name = modname_of(rel)
            self.modules[name] = ModuleInfo(
                name=name,
                path=rel,
                tree=tree,
                source=text,
                is_package=rel.endswith("__init__.py"),
            )
        for m in self.modules.values():
            self._index_module(m)
        for c in self.classes.values():
            c.bases = [self._resolve_base(c, b) for b in c.base_exprs]

    # ------------------------------------------------------------------ build
    def _package_of(self, m: ModuleInfo) -> str:
        return m.name if m.is_package else m.name.rsplit(".", 1)[0]

    def _abs_module(self, m: ModuleInfo, level: int, module: Optional[str]) -> str:
        if level == 0:
            return module or ""
        pkg = self._package_of(m).split(".")
        if level > 1:
            pkg = pkg[: len(pkg) - (level - 1)]
        base = ".".join(pkg)
        return f"{base}.{module}" if module else base

    def import_bindings(self, m: ModuleInfo, stmts) -> Dict[str, tuple]:
        """Bindings introduced by Import/ImportFrom statements among stmts (non-recursive)."""
        out = {}
        for st in stmts:
            if isinstance(st, ast.Import):
                for a in st.names:
                    if a.asname:
                        out[a.asname] = ("module", a.name)
                    else:
                        top = a.name.split(".")[0]
                        out[top] = ("module", top)
            elif isinstance(st, ast.ImportFrom):
                src = self._abs_module(m, st.level, st.module)
                for a in st.names:
                    if a.name == "*":
                        out.setdefault("*", ("stars", []))[1].append(src)
                    else:
                        out[a.asname or a.name] = ("alias", src, a.name)
        return out

    def _index_module(self, m: ModuleInfo):
        b = m.bindings
        for st in m.tree.body:
            self._bind_stmt(m, st, b)
        stars = b.pop("*", None)
        if stars:
            m.star_imports = stars[1]
        # __all__
        for st in m.tree.body:
            if isinstance(st, ast.Assign) and any(
                isinstance(t, ast.Name) and t.id == "__all__" for t in st.targets
            ):
                if isinstance(st.value, (ast.List, ast.Tuple)):
                    m.all_names = [
                        e.value for e in st.value.elts if isinstance(e, ast.Constant)
                    ]

    def _bind_stmt(self, m, st, b):
        if isinstance(st, (ast.Import, ast.ImportFrom)):
            nb = self.import_bindings(m, [st])
            stars = nb.pop("*", None)
            if stars:
                b.setdefault("*", ("stars", []))[1].extend(stars[1])
            b.update(nb)
        elif isinstance(st, ast.ClassDef):
            ci = self._index_class(m, st, prefix=m.name)
            b[st.name] = ("class", ci.qualname)
        elif isinstance(st, (ast.FunctionDef, ast.AsyncFunctionDef)):
            fi = self._index_function(m, st, prefix=m.name, cls=None, parent=None)
            b[st.name] = ("func", fi.qualname)
        elif isinstance(st, (ast.Assign, ast.AnnAssign, ast.AugAssign)):
            targets = st.targets if isinstance(st, ast.Assign) else [st.target]
            for t in targets:
                for n in ast.walk(t):
                    if isinstance(n, ast.Name):
                        b[n.id] = ("var", m.name, n.id)
        elif isinstance(st, (ast.If, ast.Try, ast.With, ast.For, ast.While)):
            for fld in ("body", "orelse", "finalbody"):
                for s in getattr(st, fld, []) or []:
                    self._bind_stmt(m, s, b)
            for h in getattr(st, "handlers", []) or []:
                for s in h.body:
                    self._bind_stmt(m, s, b)

    def _index_class(self, m, node: ast.ClassDef, prefix: str) -> ClassInfo:
        qual = f"{prefix}.{node.name}"
        ci = ClassInfo(
            qualname=qual,
            name=node.name,
            module=m.name,
            node=node,
            path=m.path,
            base_exprs=list(node.bases),
        )
        self.classes[qual] = ci
        self.class_of_node[id(node)] = ci
        for st in node.body:
            if isinstance(st, (ast.FunctionDef, ast.AsyncFunctionDef)):
                lst = ci.methods_all.setdefault(st.name, [])
                suffix = f"#{len(lst)}" if lst else ""
                fi = self._index_function(
                    m, st, prefix=qual, cls=qual, parent=None, suffix=suffix
                )
                lst.append(fi)
                ci.methods[st.name] = fi
                if fi.is_property:
                    ci.props.add(st.name)
            elif isinstance(st, ast.Assign):
                for t in st.targets:
                    if isinstance(t, ast.Name):
                        ci.class_attrs[t.id] = st.value
            elif isinstance(st, ast.AnnAssign) and isinstance(st.target, ast.Name):
                ci.class_attrs[st.target.id] = st.value
            elif isinstance(st, ast.ClassDef):
                self._index_class(m, st, prefix=qual)
        # self.X stores
        for lst in ci.methods_all.values():
            for fi in lst:
                selfname = fi.params[0] if fi.params else None
                if not selfname or fi.is_staticmethod:
                    continue
                for n in ast.walk(fi.node):
                    tgts = []
                    val = None
                    if isinstance(n, ast.Assign):
                        tgts, val = n.targets, n.value
                    elif isinstance(n, ast.AnnAssign):
                        tgts, val = [n.target], n.value
                    elif isinstance(n, ast.AugAssign):
                        tgts, val = [n.target], None
                    flat = []
                    for t in tgts:
                        if isinstance(t, (ast.Tuple, ast.List)):
                            flat.extend((e, None) for e in t.elts)
                        else:
                            flat.append((t, val))
                    for t, v in flat:
                        if (
                            isinstance(t, ast.Attribute)
                            and isinstance(t.value, ast.Name)
                            and t.value.id == selfname
                        ):
                            ci.self_attrs.setdefault(t.attr, []).append((fi, v))
        return ci

    def _index_function(self, m, node, prefix, cls, parent, suffix="") -> FuncInfo:
        qual = f"{prefix}.{node.name}{suffix}"
        fi = FuncInfo(
            qualname=qual,
            module=m.name,
            cls=cls,
            name=node.name,
            node=node,
            parent=parent,
            decorators=decorator_names(node),
            path=m.path,
        )
        self.functions[qual] = fi
        self.func_of_node[id(node)] = fi
        self._index_nested(m, node, qual, cls)
        return fi

    def _index_nested(self, m, node, qual, cls):
        """Index nested defs and lambdas of a function (not descending into nested defs twice)."""
        counter = [0]

        def walk(n):
            for ch in ast.iter_child_nodes(n):
                if isinstance(ch, (ast.FunctionDef, ast.AsyncFunctionDef)):
                    self._index_function(
                        m, ch, prefix=f"{qual}.<locals>", cls=None, parent=qual
                    )
                elif isinstance(ch, ast.Lambda):
                    counter[0] += 1
                    q = f"{qual}.<locals>.<lambda{counter[0]}>"
                    fi = FuncInfo(
                        qualname=q,
                        module=m.name,
                        cls=None,
                        name="<lambda>",
                        node=ch,
                        parent=qual,
                        path=m.path,
                    )
                    self.functions[q] = fi
                    self.func_of_node[id(ch)] = fi
                    walk(ch)
                elif isinstance(ch, ast.ClassDef):
                    self._index_class(m, ch, prefix=f"{qual}.<locals>")
                else:
                    walk(ch)

        if isinstance(node, ast.Lambda):
            walk(node)
        else:
            for d in node.args.defaults + node.args.kw_defaults:
                if d is not None:
                    walk(ast.Expr(value=d))
            for st in node.body:
                if isinstance(st, (ast.FunctionDef, ast.AsyncFunctionDef)):
                    self._index_function(
                        m, st, prefix=f"{qual}.<locals>", cls=None, parent=qual
                    )
                elif isinstance(st, ast.ClassDef):
                    self._index_class(m, st, prefix=f"{qual}.<locals>")
                else:
                    walk(st)

    # ---------------------------------------------------------------- resolve
    def resolve_binding(self, b: tuple, depth=0) -> Optional[tuple]:
        if b is None or depth > 12:
            return None
        kind = b[0]
        if kind == "alias":
            _, src, name = b
            return self.resolve_in_module(src, name, depth + 1)
        return b

    def resolve_in_module(self, modname: str, name: str, depth=0) -> Optional[tuple]:
        """Resolve attribute ``name`` of module ``modname``."""
        if depth > 12:
            return None
        m = self.modules.get(modname)
        if m is None:
            if modname.split(".")[0] == "jaqalpaq":
                return None
            return ("ext", f"{modname}.{name}")
        if name in m.bindings:
            return self.resolve_binding(m.bindings[name], depth)
        sub = f"{modname}.{name}"
        if sub in self.modules:
            return ("module", sub)
        for s in m.star_imports:
            sm = self.modules.get(s)
            if sm is None:
                continue
            if sm.all_names is not None and name not in sm.all_names:
                continue
            if sm.all_names is None and name.startswith("_"):
                continue
            r = self.resolve_in_module(s, name, depth + 1)
            if r is not None:
                return r
        return None

    def resolve_name(self, modname: str, name: str, func: Optional[FuncInfo] = None):
        """Resolve a bare name used in module ``modname`` (optionally inside ``func``)."""
        f = func
        while f is not None:
            lb = self.local_imports(f)
            if name in lb:
                return self.resolve_binding(lb[name])
            # nested defs
            q = f"{f.qualname}.<locals>.{name}"
            if q in self.functions:
                return ("func", q)
            if q in self.classes:
                return ("class", q)
            f = self.functions.get(f.parent) if f.parent else None
        return self.resolve_in_module(modname, name)

    def local_imports(self, f: FuncInfo) -> Dict[str, tuple]:
        cache = getattr(self, "_li_cache", None)
        if cache is None:
            cache = self._li_cache = {}
        if f.qualname not in cache:
            stmts = [
                n
                for n in ast.walk(f.node)
                if isinstance(n, (ast.Import, ast.ImportFrom))
            ]
            nb = self.import_bindings(self.modules[f.module], stmts)
            nb.pop("*", None)
            cache[f.qualname] = nb
        return cache[f.qualname]

    def resolve_expr(self, modname, expr, func=None) -> Optional[tuple]:
        """Resolve a Name / dotted Attribute chain to a binding."""
        if isinstance(expr, ast.Name):
            return self.resolve_name(modname, expr.id, func)
        if isinstance(expr, ast.Attribute):
            base = self.resolve_expr(modname, expr.value, func)
            if base is None:
                return None
            if base[0] == "module":
                return self.resolve_in_module(base[1], expr.attr)
            if base[0] == "ext":
                return ("ext", f"{base[1]}.{expr.attr}")
            if base[0] == "class":
                ci = self.classes.get(base[1])
                if ci:
                    fi = self.find_method(ci.qualname, expr.attr)
                    if fi:
                        return ("func", fi.qualname)
                    for c in self.mro(ci.qualname):
                        if expr.attr in self.classes[c].class_attrs:
                            return ("classattr", c, expr.attr)
            return None
        return None

    def _resolve_base(self, c: ClassInfo, expr) -> str:
        r = self.resolve_expr(c.module, expr)
        if r and r[0] == "class":
            return r[1]
        d = dotted(expr) or ast.dump(expr)
        if r and r[0] == "ext":
            return f"ext:{r[1]}"
        return f"ext:{d}"

    # ------------------------------------------------------------- hierarchy
    def mro(self, qual: str) -> List[str]:
        """C3 linearisation restricted to in-package classes."""
        if qual in self._mro_cache:
            return self._mro_cache[qual]
        ci = self.classes.get(qual)
        if ci is None:
            return []
        self._mro_cache[qual] = [qual]  # cycle guard
        seqs = [list(self.mro(b)) for b in ci.bases if b in self.classes]
        seqs.append([b for b in ci.bases if b in self.classes])
        res = [qual]
        seqs = [s for s in seqs if s]
        while seqs:
            for s in seqs:
                head = s[0]
                if not any(head in t[1:] for t in seqs):
                    break
            else:
                head = seqs[0][0]  # inconsistent; degrade gracefully
            res.append(head)
            seqs = [[x for x in s if x != head] for s in seqs]
            seqs = [s for s in seqs if s]
        self._mro_cache[qual] = res
        return res

    def ext_bases(self, qual: str) -> List[str]:
        out = []
        for c in self.mro(qual):
            out += [b for b in self.classes[c].bases if b.startswith("ext:")]
        return out

    def is_subclass(self, a: str, b: str) -> bool:
        return b in self.mro(a)

    def subclasses(self, qual: str) -> List[str]:
        if qual not in self._sub_cache:
            self._sub_cache[qual] = sorted(
                c for c in self.classes if c != qual and qual in self.mro(c)
            )
        return self._sub_cache[qual]

    def find_method(self, cls: str, name: str) -> Optional[FuncInfo]:
        for c in self.mro(cls):
            m = self.classes[c].methods.get(name)
            if m is not None:
                return m
        return None

    def find_attr(self, cls: str, name: str) -> Optional[Tuple[str, str]]:
        """('method'|'property'|'classattr'|'selfattr', defining class) or None."""
        for c in self.mro(cls):
            ci = self.classes[c]
            if name in ci.methods:
                return ("property" if name in ci.props else "method", c)
            if name in ci.class_attrs:
                return ("classattr", c)
        for c in self.mro(cls):
            if name in self.classes[c].self_attrs:
                return ("selfattr", c)
        return None

    def class_named(self, short: str, module_hint: Optional[str] = None) -> ClassInfo:
        cands = [c for c in self.classes.values() if c.name == short]
        if module_hint:
            cands = [c for c in cands if c.module == module_hint] or cands
        if len(cands) != 1:
            raise AnalysisError(
                f"anchor class {short!r} not found uniquely ({[c.qualname for c in cands]})"
            )
        return cands[0]

    def func(self, qual: str) -> FuncInfo:
        f = self.functions.get(qual)
        if f is None:
            raise AnalysisError(f"anchor function {qual!r} not found")
        return f

    def cls(self, qual: str) -> ClassInfo:
        c = self.classes.get(qual)
        if c is None:
            raise AnalysisError(f"anchor class {qual!r} not found")
        return c

    def enclosing_func(self, f: FuncInfo) -> Optional[FuncInfo]:
        return self.functions.get(f.parent) if f.parent else None

    # ----------------------------------------------------------- init fields
    def property_field(self, cls: str, prop: str) -> Optional[str]:
        """If property ``prop`` of cls is ``return self._f`` return '_f'."""
        fi = self.find_method(cls, prop)
        if fi is None or not fi.is_property:
            return None
        body = [
            s
            for s in fi.node.body
            if not (
                isinstance(s, ast.Expr)
                and isinstance(s.value, ast.Constant)
                and isinstance(s.value.value, str)
            )
        ]
        if len(body) == 1 and isinstance(body[0], ast.Return):
            v = body[0].value
            if (
                isinstance(v, ast.Attribute)
                and isinstance(v.value, ast.Name)
                and v.value.id == fi.params[0]
            ):
                return v.attr
        return None

    def init_fields(self, cls: str) -> Dict[str, dict]:
        """Attributes stored by ``__init__`` (following super().__init__), in order.

        value: {'exprs': [value expr...], 'params': set(init param names of the
        defining __init__ feeding the store), 'cls': defining class}
        """
        out: Dict[str, dict] = {}
        seen = set()

        def visit_init(c):
            fi = self.find_method(c, "__init__")
            if fi is None or fi.qualname in seen:
                return
            seen.add(fi.qualname)
            selfname = fi.params[0]
            pset = set(fi.all_params[1:])
            for n in ast.walk(fi.node):
                if isinstance(n, ast.Call):
                    f = n.func
                    if (
                        isinstance(f, ast.Attribute)
                        and f.attr == "__init__"
                        and isinstance(f.value, ast.Call)
                        and isinstance(f.value.func, ast.Name)
                        and f.value.func.id == "super"
                    ):
                        m = self.mro(fi.cls)
                        if len(m) > 1:
                            visit_init(m[1])
            for n in ast.walk(fi.node):
                tgts, val = [], None
                if isinstance(n, ast.Assign):
                    tgts, val = n.targets, n.value
                elif isinstance(n, ast.AnnAssign):
                    tgts, val = [n.target], n.value
                for t in tgts:
                    if (
                        isinstance(t, ast.Attribute)
                        and isinstance(t.value, ast.Name)
                        and t.value.id == selfname
                    ):
                        d = out.setdefault(
                            t.attr, {"exprs": [], "params": set(), "cls": fi.cls}
                        )
                        d["exprs"].append(val)
                        if val is not None:
                            for x in ast.walk(val):
                                if isinstance(x, ast.Name) and x.id in pset:
                                    d["params"].add(x.id)

        visit_init(cls)
        return out

    def field_properties(self, cls: str) -> Dict[str, List[str]]:
        """field '_f' -> property names exposing it (through the MRO)."""
        out: Dict[str, List[str]] = {}
        for c in self.mro(cls):
            for p in self.classes[c].props:
                f = self.property_field(cls, p)
                if f:
                    out.setdefault(f, [])
                    if p not in out[f]:
                        out[f].append(p)
        return out
