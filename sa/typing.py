"""E2/E3 -- repository-specific typing, call resolution and call graph.

Types are frozensets of strings:
  'pkg.mod.Class'      an instance of an in-package class
  'type:pkg.mod.Class' the class object itself
  'func:qualname'      a function object
  'builtin:list' ...   builtin kinds
  '?'                  "possibly something else / unknown"
The sets are *may* information.  ``UNKNOWN`` is {'?'}.
"""

from __future__ import annotations

import ast
from typing import Dict, List, Optional, Set, Tuple

from .index import Index, FuncInfo, dotted

UNKNOWN = frozenset({"?"})
VISITOR = "jaqalpaq.core.algorithm.visitor.Visitor"

BUILTIN_RET = {
    "list": "builtin:list",
    "dict": "builtin:dict",
    "set": "builtin:set",
    "frozenset": "builtin:set",
    "tuple": "builtin:tuple",
    "str": "builtin:str",
    "repr": "builtin:str",
    "int": "builtin:int",
    "float": "builtin:float",
    "bool": "builtin:bool",
    "len": "builtin:int",
    "sorted": "builtin:list",
    "range": "builtin:range",
    "enumerate": "builtin:iter",
    "zip": "builtin:iter",
    "iter": "builtin:iter",
    "isinstance": "builtin:bool",
    "hasattr": "builtin:bool",
    "any": "builtin:bool",
    "all": "builtin:bool",
    "slice": "builtin:slice",
    "deque": "builtin:deque",
    "defaultdict": "builtin:dict",
    "OrderedDict": "builtin:dict",
}

COMMON_METHOD_NAMES = {
    "append", "extend", "update", "get", "items", "values", "keys", "copy", "pop",
    "add", "join", "format", "startswith", "endswith", "count", "split", "remove",
    "insert", "clear", "setdefault", "index", "sort", "reverse", "appendleft",
    "popleft", "strip", "lower", "upper", "replace", "rfind", "find", "zfill",
    "discard", "union", "read", "write", "match", "groups", "is_dir", "is_file",
    "parse", "tokenize", "sum", "max", "min", "reshape", "flatten", "dot", "conj",
    "encode", "decode", "send", "recv", "close", "connect", "warn", "exec_module",
}


def _is_docstring(st):
    return (
        isinstance(st, ast.Expr)
        and isinstance(st.value, ast.Constant)
        and isinstance(st.value.value, str)
    )


class CallSite:
    __slots__ = ("node", "caller", "targets", "kind", "recv_types", "weak", "classes")

    def __init__(self, node, caller, targets, kind, recv_types=None, weak=False, classes=()):
        self.node = node
        self.caller = caller
        self.targets: List[FuncInfo] = targets
        self.kind = kind  # 'function' | 'method' | 'constructor' | 'visit' | 'property' | 'builder'
        self.recv_types = recv_types
        self.weak = weak
        self.classes = classes  # constructed classes (constructor kind)


class Typer:
    def __init__(self, ix: Index, duck: bool = True, rounds: int = 3):
        self.ix = ix
        self.duck = duck
        self.param_types: Dict[Tuple[str, str], frozenset] = {}
        self.ret_types: Dict[str, frozenset] = {}
        self.field_types_cache: Dict[Tuple[str, str], frozenset] = {}
        self.expr_types: Dict[int, frozenset] = {}
        self.calls: Dict[str, List[CallSite]] = {}
        self.final_env: Dict[str, Dict[str, frozenset]] = {}
        self.ir_classes = self._discover_ir_classes()
        self.ir_attr_owners = self._attr_owner_table()
        for r in range(rounds):
            self._round()

    # ------------------------------------------------------------- discovery
    def _discover_ir_classes(self) -> List[str]:
        """IR classes: constructed by a build_* method of Builder, or the static
        type of a visit_<Name> method somewhere -- restricted to jaqalpaq.core."""
        ix = self.ix
        names = set()
        for c in ix.classes.values():
            for mname in c.methods:
                if mname.startswith("visit_") and mname != "visit_default":
                    names.add(mname[len("visit_"):])
        out = set()
        for c in ix.classes.values():
            if c.name in names and c.module.startswith("jaqalpaq.core") and ".algorithm" not in c.module:
                out.add(c.qualname)
        builder = [c for c in ix.classes.values() if c.name == "Builder" and c.module.endswith("circuitbuilder")]
        for b in builder:
            for mname, fi in b.methods.items():
                if not mname.startswith("build_"):
                    continue
                for n in ast.walk(fi.node):
                    if isinstance(n, ast.Call):
                        r = ix.resolve_expr(b.module, n.func, fi)
                        if r and r[0] == "class" and r[1].startswith("jaqalpaq.core"):
                            out.add(r[1])
        # close under in-package bases and subclasses that live in jaqalpaq.core
        changed = True
        while changed:
            changed = False
            for q in list(out):
                for b in ix.mro(q)[1:]:
                    if b not in out and b.startswith("jaqalpaq.core"):
                        out.add(b); changed = True
                for s in ix.subclasses(q):
                    if s not in out and s.startswith("jaqalpaq.core") and ".algorithm" not in s:
                        out.add(s); changed = True
        return sorted(out)

    def _attr_owner_table(self) -> Dict[str, Set[str]]:
        """attribute name -> IR classes exposing it (methods/properties/class attrs)."""
        table: Dict[str, Set[str]] = {}
        for q in self.ir_classes:
            names = set()
            for c in self.ix.mro(q):
                ci = self.ix.classes[c]
                names |= set(ci.methods) | set(ci.class_attrs)
            for n in names:
                table.setdefault(n, set()).add(q)
        return table

    def classes_named(self, short: str) -> List[str]:
        return [q for q in self.ir_classes if q.rsplit(".", 1)[1] == short] or [
            q for q, c in self.ix.classes.items() if c.name == short
        ]

    # ----------------------------------------------------------------- round
    def _round(self):
        self.pending: Dict[Tuple[str, str], set] = {}
        self.expr_types = {}
        self.calls = {}
        self.field_types_cache = {}
        new_ret = {}
        # type outer functions before nested ones (closure env)
        funcs = sorted(self.ix.functions.values(), key=lambda f: f.qualname.count("<locals>"))
        for f in funcs:
            ft = _FuncTyper(self, f)
            ft.run()
            new_ret[f.qualname] = ft.ret
            self.final_env[f.qualname] = ft.env
        self.ret_types = new_ret
        self.param_types = {k: frozenset(v) for k, v in self.pending.items()}

    # ------------------------------------------------------------ field types
    def field_types(self, cls: str, field: str) -> frozenset:
        key = (cls, field)
        if key in self.field_types_cache:
            return self.field_types_cache[key]
        self.field_types_cache[key] = UNKNOWN
        res = set()
        info = self.ix.init_fields(cls).get(field)
        if info is None:
            # stored elsewhere?
            for c in self.ix.mro(cls):
                for fi, v in self.ix.classes[c].self_attrs.get(field, []):
                    if v is None:
                        res.add("?")
                    else:
                        res |= self._type_in_func(fi, v)
            if not res:
                ca = None
                for c in self.ix.mro(cls):
                    if field in self.ix.classes[c].class_attrs:
                        ca = (c, self.ix.classes[c].class_attrs[field]); break
                if ca and ca[1] is not None:
                    res |= self._type_module_expr(self.ix.classes[ca[0]].module, ca[1])
                else:
                    res.add("?")
        else:
            init = self.ix.find_method(info["cls"], "__init__")
            for c in self.ix.mro(cls):
                for fi, v in self.ix.classes[c].self_attrs.get(field, []):
                    if v is None:
                        res.add("?")
                    else:
                        res |= self._type_in_func(fi, v)
        out = frozenset(res) if res else UNKNOWN
        self.field_types_cache[key] = out
        return out

    def _type_in_func(self, fi: FuncInfo, expr) -> frozenset:
        t = self.expr_types.get(id(expr))
        if t is not None:
            return t
        env = self.final_env.get(fi.qualname)
        if env is None:
            return UNKNOWN
        ft = _FuncTyper(self, fi, record=False)
        ft.env = dict(env)
        return ft.typ(expr)

    def _type_module_expr(self, modname: str, expr) -> frozenset:
        if isinstance(expr, ast.Constant):
            return frozenset({f"builtin:{type(expr.value).__name__}"})
        if isinstance(expr, (ast.List, ast.ListComp)):
            return frozenset({"builtin:list"})
        if isinstance(expr, (ast.Dict, ast.DictComp)):
            return frozenset({"builtin:dict"})
        if isinstance(expr, (ast.Set,)):
            return frozenset({"builtin:set"})
        if isinstance(expr, ast.Tuple):
            return frozenset({"builtin:tuple"})
        if isinstance(expr, ast.Call):
            r = self.ix.resolve_expr(modname, expr.func)
            if r and r[0] == "class":
                return frozenset({r[1]})
            d = dotted(expr.func)
            if d and d.split(".")[-1] in BUILTIN_RET:
                return frozenset({BUILTIN_RET[d.split(".")[-1]]})
        return UNKNOWN

    # --------------------------------------------------------------- helpers
    def is_visitor(self, cls: str) -> bool:
        return VISITOR in self.ix.mro(cls)

    def visit_targets(self, recv_cls: str, arg_types: frozenset, include_subclasses=True) -> List[FuncInfo]:
        ix = self.ix
        fam = [recv_cls] + (ix.subclasses(recv_cls) if include_subclasses else [])
        out: List[FuncInfo] = []
        seen = set()

        def add(fi):
            if fi is not None and fi.qualname not in seen:
                seen.add(fi.qualname)
                out.append(fi)

        open_ = "?" in arg_types or not arg_types
        for c in fam:
            if open_:
                names = set()
                for k in ix.mro(c):
                    names |= {m for m in ix.classes[k].methods if m.startswith("visit_")}
                for m in sorted(names):
                    add(ix.find_method(c, m))
            for t in arg_types:
                if t == "?":
                    continue
                if t in ix.classes:
                    found = None
                    for k in ix.mro(t):
                        fi = ix.find_method(c, f"visit_{ix.classes[k].name}")
                        if fi is not None:
                            found = fi
                            break
                    add(found or ix.find_method(c, "visit_default"))
                else:
                    add(ix.find_method(c, "visit_default"))
        return out

    def types_of(self, node) -> frozenset:
        return self.expr_types.get(id(node), UNKNOWN)

    def class_types(self, node) -> Set[str]:
        return {t for t in self.types_of(node) if t in self.ix.classes}

    def callsites(self, f: FuncInfo) -> List[CallSite]:
        return self.calls.get(f.qualname, [])

    def all_callsites(self):
        for lst in self.calls.values():
            yield from lst

    def callers_of(self, qual: str) -> List[CallSite]:
        idx = getattr(self, "_callers_idx", None)
        if idx is None:
            idx = {}
            for cs in self.all_callsites():
                for t in cs.targets:
                    idx.setdefault(t.qualname, []).append(cs)
            self._callers_idx = idx
        return idx.get(qual, [])

    # ------------------------------------------------------------ call graph
    def graph(self, weak=False, properties=True):
        import networkx as nx

        g = nx.DiGraph()
        for q in self.ix.functions:
            g.add_node(q)
        for caller, lst in self.calls.items():
            for cs in lst:
                if cs.weak and not weak:
                    continue
                if cs.kind == "property" and not properties:
                    continue
                for t in cs.targets:
                    g.add_edge(caller, t.qualname)
        # nested functions are reachable from their parent (closures may escape)
        for q, f in self.ix.functions.items():
            if f.parent:
                g.add_edge(f.parent, q)
        return g


class _FuncTyper:
    """Single forward pass over one function."""

    def __init__(self, typer: Typer, f: FuncInfo, record=True):
        self.T = typer
        self.ix = typer.ix
        self.f = f
        self.record = record
        self.env: Dict[str, frozenset] = {}
        self.ret: frozenset = frozenset()
        self.sites: List[CallSite] = []
        self.str_prefix: Dict[str, str] = {}  # local name -> constant f-string prefix

    # ---------------------------------------------------------------- params
    def _param_type(self, i: int, p: str) -> frozenset:
        f, ix, T = self.f, self.ix, self.T
        node = f.node
        if f.cls and i == 0 and not f.is_staticmethod and not isinstance(node, ast.Lambda):
            if f.is_classmethod:
                return frozenset({f"type:{f.cls}"})
            return frozenset({f.cls})
        res = set()
        # visitor convention
        pos = i - (1 if f.cls and not f.is_staticmethod else 0)
        if f.cls and pos == 0 and f.name.startswith("visit_") and f.name != "visit_default" and T.is_visitor(f.cls):
            ks = T.classes_named(f.name[len("visit_"):])
            if ks:
                return frozenset(ks)
        # annotation
        args = node.args.posonlyargs + node.args.args + node.args.kwonlyargs
        for a in args:
            if a.arg == p and a.annotation is not None:
                r = ix.resolve_expr(f.module, a.annotation, f)
                if r and r[0] == "class":
                    return frozenset({r[1]})
        bound = T.param_types.get((f.qualname, p))
        if bound:
            res |= bound
        if T.duck and (not res or res == {"?"}):
            d = self._duck(p)
            if d:
                res |= d
                res.add("?")
        return frozenset(res) if res else UNKNOWN

    def _duck(self, p: str) -> Set[str]:
        attrs = set()
        for n in ast.walk(self.f.node):
            if isinstance(n, ast.Attribute) and isinstance(n.value, ast.Name) and n.value.id == p and isinstance(n.ctx, ast.Load):
                attrs.add(n.attr)
        if not attrs:
            return set()
        cands = None
        for a in attrs:
            owners = self.T.ir_attr_owners.get(a)
            if not owners:
                return set()
            cands = set(owners) if cands is None else cands & owners
        if not cands or len(cands) > 4:
            return set()
        # drop classes that are strict subclasses of another candidate
        return {c for c in cands if not any(o != c and o in self.ix.mro(c) for o in cands)} or cands

    # ------------------------------------------------------------------- run
    def run(self):
        f = self.f
        if f.parent and f.parent in self.T.final_env:
            self.env.update(self.T.final_env[f.parent])
        a = f.node.args
        plist = [x.arg for x in a.posonlyargs + a.args]
        for i, p in enumerate(plist):
            self.env[p] = self._param_type(i, p)
        for x in a.kwonlyargs:
            self.env[x.arg] = self._param_type(len(plist) + 1, x.arg)
        if a.vararg:
            self.env[a.vararg.arg] = frozenset({"builtin:tuple"})
        if a.kwarg:
            self.env[a.kwarg.arg] = frozenset({"builtin:dict"})
        self.block(f.body)
        if self.record:
            self.T.calls[f.qualname] = self.sites

    # ------------------------------------------------------------ statements
    def block(self, stmts):
        for st in stmts:
            self.stmt(st)

    def stmt(self, st):
        if isinstance(st, (ast.FunctionDef, ast.AsyncFunctionDef)):
            fi = self.ix.func_of_node.get(id(st))
            if fi:
                self.env[st.name] = frozenset({f"func:{fi.qualname}"})
            for d in st.args.defaults + [k for k in st.args.kw_defaults if k is not None]:
                self.typ(d)
            return
        if isinstance(st, ast.ClassDef):
            return
        if isinstance(st, ast.Return):
            if st.value is not None:
                self.ret = self.ret | self.typ(st.value)
            else:
                self.ret = self.ret | {"builtin:NoneType"}
            return
        if isinstance(st, ast.Assign):
            t = self.typ(st.value)
            for tg in st.targets:
                self.assign(tg, t, st.value)
            return
        if isinstance(st, ast.AnnAssign):
            t = self.typ(st.value) if st.value is not None else UNKNOWN
            self.assign(st.target, t, st.value)
            return
        if isinstance(st, ast.AugAssign):
            self.typ(st.value)
            self.typ_target(st.target)
            return
        if isinstance(st, ast.Expr):
            if isinstance(st.value, (ast.Yield, ast.YieldFrom)):
                self.ret = self.ret | {"builtin:generator"}
                if st.value.value is not None:
                    self.typ(st.value.value)
            else:
                self.typ(st.value)
            return
        if isinstance(st, ast.If):
            self.typ(st.test)
            pos, neg = self.narrowings(st.test)
            env0 = dict(self.env)
            self.env.update(pos)
            self.block(st.body)
            env_body = self.env
            body_exits = self.always_exits(st.body)
            self.env = dict(env0)
            self.env.update(neg)
            self.block(st.orelse)
            env_else = self.env
            else_exits = bool(st.orelse) and self.always_exits(st.orelse)
            if body_exits and not else_exits:
                self.env = env_else
            elif else_exits and not body_exits:
                self.env = env_body
            else:
                self.env = self.merge(env_body, env_else)
            return
        if isinstance(st, (ast.For, ast.AsyncFor)):
            it = self.typ(st.iter)
            self.assign(st.target, self.elem_type(st.iter, it), None)
            env0 = dict(self.env)
            self.block(st.body)
            self.block(st.body) if False else None
            self.env = self.merge(env0, self.env)
            self.block(st.orelse)
            return
        if isinstance(st, ast.While):
            self.typ(st.test)
            pos, neg = self.narrowings(st.test)
            env0 = dict(self.env)
            self.env.update(pos)  # inside the body the loop condition holds
            self.block(st.body)
            self.env = self.merge(env0, self.env)
            if not any(isinstance(n, ast.Break) for n in ast.walk(st)):
                self.env.update({k: v for k, v in neg.items() if k in self.env})  # after a loop without break the condition is false
            self.block(st.orelse)
            return
        if isinstance(st, (ast.With, ast.AsyncWith)):
            for it in st.items:
                t = self.typ(it.context_expr)
                if it.optional_vars is not None:
                    self.assign(it.optional_vars, UNKNOWN, None)
            self.block(st.body)
            return
        if isinstance(st, ast.Try):
            env0 = dict(self.env)
            self.block(st.body)
            envs = [self.env]
            for h in st.handlers:
                self.env = dict(env0)
                if h.type is not None:
                    self.typ(h.type)
                if h.name:
                    self.env[h.name] = UNKNOWN
                self.block(h.body)
                envs.append(self.env)
            e = envs[0]
            for x in envs[1:]:
                e = self.merge(e, x)
            self.env = e
            self.block(st.orelse)
            self.block(st.finalbody)
            return
        if isinstance(st, ast.Raise):
            if st.exc is not None:
                self.typ(st.exc)
            if st.cause is not None:
                self.typ(st.cause)
            return
        if isinstance(st, ast.Assert):
            self.typ(st.test)
            if st.msg is not None:
                self.typ(st.msg)
            pos, _ = self.narrowings(st.test)
            self.env.update(pos)
            return
        if isinstance(st, ast.Delete):
            for t in st.targets:
                self.typ_target(t)
            return
        # Pass, Break, Continue, Import, Global, Nonlocal: nothing
        if isinstance(st, (ast.Import, ast.ImportFrom)):
            return

    @staticmethod
    def always_exits(stmts) -> bool:
        if not stmts:
            return False
        last = stmts[-1]
        if isinstance(last, (ast.Return, ast.Raise, ast.Continue, ast.Break)):
            return True
        if isinstance(last, ast.If):
            return bool(last.orelse) and _FuncTyper.always_exits(last.body) and _FuncTyper.always_exits(last.orelse)
        return False

    @staticmethod
    def merge(a, b):
        out = {}
        for k in set(a) | set(b):
            ta, tb = a.get(k), b.get(k)
            if ta is None or tb is None:
                out[k] = (ta or tb) | {"?"}
            else:
                out[k] = ta | tb
        return out

    def narrowings(self, test):
        """({name: types} if test true, {name: types} if test false)"""
        pos, neg = {}, {}
        if isinstance(test, ast.Call) and isinstance(test.func, ast.Name) and test.func.id == "isinstance" and len(test.args) == 2:
            tgt, cl = test.args
            if isinstance(tgt, ast.Name):
                ks = set()
                elts = cl.elts if isinstance(cl, ast.Tuple) else [cl]
                ok = True
                for e in elts:
                    r = self.ix.resolve_expr(self.f.module, e, self.f)
                    if r and r[0] == "class":
                        ks.add(r[1])
                    else:
                        d = dotted(e)
                        if d in ("int", "float", "str", "list", "tuple", "dict", "bool", "slice", "set"):
                            ks.add(f"builtin:{d}")
                        else:
                            ok = False
                if ok and ks:
                    pos[tgt.id] = frozenset(ks)
                    cur = self.env.get(tgt.id)
                    if cur and "?" not in cur:
                        rest = {t for t in cur if not any(t == k or (t in self.ix.classes and k in self.ix.mro(t)) for k in ks)}
                        if rest:
                            neg[tgt.id] = frozenset(rest)
            return pos, neg
        if isinstance(test, ast.UnaryOp) and isinstance(test.op, ast.Not):
            p, n = self.narrowings(test.operand)
            return n, p
        if isinstance(test, ast.BoolOp) and isinstance(test.op, ast.And):
            for v in test.values:
                p, _ = self.narrowings(v)
                pos.update(p)
            return pos, {}
        if isinstance(test, ast.BoolOp) and isinstance(test.op, ast.Or):
            # negative of an 'or' narrows with all negatives
            for v in test.values:
                _, n = self.narrowings(v)
                neg.update(n)
            # positive: union of isinstance alternatives on the same name
            alts = [self.narrowings(v)[0] for v in test.values]
            if alts and all(len(a) == 1 for a in alts):
                names = {next(iter(a)) for a in alts}
                if len(names) == 1:
                    nm = names.pop()
                    u = frozenset().union(*[a[nm] for a in alts])
                    pos[nm] = u
            return pos, neg
        return pos, neg

    def assign(self, target, t: frozenset, value):
        if isinstance(target, ast.Name):
            self.env[target.id] = t
            if self.record:
                self.T.expr_types[id(target)] = t
            if isinstance(value, ast.JoinedStr):
                pre = self.fstring_prefix(value)
                if pre is not None:
                    self.str_prefix[target.id] = pre
        elif isinstance(target, (ast.Tuple, ast.List)):
            elts_t = None
            if isinstance(value, (ast.Tuple, ast.List)) and len(value.elts) == len(target.elts):
                elts_t = [self.typ(e) for e in value.elts]
            for i, e in enumerate(target.elts):
                if isinstance(e, ast.Starred):
                    self.assign(e.value, frozenset({"builtin:list"}), None)
                else:
                    self.assign(e, elts_t[i] if elts_t else UNKNOWN, None)
        else:
            self.typ_target(target)

    def typ_target(self, target):
        if isinstance(target, ast.Attribute):
            self.typ(target.value)
        elif isinstance(target, ast.Subscript):
            self.typ(target.value)
            self.typ(target.slice)
        elif isinstance(target, ast.Name):
            pass

    @staticmethod
    def fstring_prefix(js: ast.JoinedStr) -> Optional[str]:
        if js.values and isinstance(js.values[0], ast.Constant) and isinstance(js.values[0].value, str):
            return js.values[0].value
        return None

    def elem_type(self, iter_expr, it_types) -> frozenset:
        # iteration over IR container classes with __iter__ -> unknown elements
        return UNKNOWN

    # ----------------------------------------------------------- expressions
    def typ(self, e) -> frozenset:
        t = self._typ(e)
        if self.record:
            self.T.expr_types[id(e)] = t
        return t

    def _typ(self, e) -> frozenset:
        ix, T = self.ix, self.T
        if e is None:
            return UNKNOWN
        if isinstance(e, ast.Constant):
            return frozenset({f"builtin:{type(e.value).__name__}"})
        if isinstance(e, ast.Name):
            if e.id in self.env:
                return self.env[e.id]
            r = ix.resolve_name(self.f.module, e.id, self.f)
            if r:
                if r[0] == "class":
                    return frozenset({f"type:{r[1]}"})
                if r[0] == "func":
                    return frozenset({f"func:{r[1]}"})
                if r[0] == "var":
                    return UNKNOWN
            return UNKNOWN
        if isinstance(e, ast.JoinedStr):
            for v in e.values:
                if isinstance(v, ast.FormattedValue):
                    self.typ(v.value)
            return frozenset({"builtin:str"})
        if isinstance(e, (ast.List, ast.Tuple, ast.Set)):
            for x in e.elts:
                self.typ(x.value if isinstance(x, ast.Starred) else x)
            k = {ast.List: "list", ast.Tuple: "tuple", ast.Set: "set"}[type(e)]
            return frozenset({f"builtin:{k}"})
        if isinstance(e, ast.Dict):
            for k in e.keys:
                if k is not None:
                    self.typ(k)
            for v in e.values:
                self.typ(v)
            return frozenset({"builtin:dict"})
        if isinstance(e, (ast.ListComp, ast.SetComp, ast.GeneratorExp, ast.DictComp)):
            saved = dict(self.env)
            for g in e.generators:
                it = self.typ(g.iter)
                self.assign(g.target, UNKNOWN, None)
                for c in g.ifs:
                    self.typ(c)
                    p, _ = self.narrowings(c)
                    self.env.update(p)
            if isinstance(e, ast.DictComp):
                self.typ(e.key); self.typ(e.value)
            else:
                self.typ(e.elt)
            self.env = saved
            k = {ast.ListComp: "list", ast.SetComp: "set", ast.GeneratorExp: "generator", ast.DictComp: "dict"}[type(e)]
            return frozenset({f"builtin:{k}"})
        if isinstance(e, ast.IfExp):
            self.typ(e.test)
            p, n = self.narrowings(e.test)
            saved = dict(self.env)
            self.env.update(p)
            a = self.typ(e.body)
            self.env = dict(saved); self.env.update(n)
            b = self.typ(e.orelse)
            self.env = saved
            return a | b
        if isinstance(e, ast.BoolOp):
            out = frozenset()
            saved = dict(self.env)
            for v in e.values:
                out = out | self.typ(v)
                if isinstance(e.op, ast.And):
                    p, _ = self.narrowings(v)
                    self.env.update(p)
            self.env = saved
            return out
        if isinstance(e, ast.UnaryOp):
            t = self.typ(e.operand)
            if isinstance(e.op, ast.Not):
                return frozenset({"builtin:bool"})
            return t
        if isinstance(e, ast.BinOp):
            a = self.typ(e.left); b = self.typ(e.right)
            if a == b and all(t.startswith("builtin:") for t in a):
                return a
            if isinstance(e.op, ast.Mod) and a == {"builtin:str"}:
                return a
            return UNKNOWN
        if isinstance(e, ast.Compare):
            self.typ(e.left)
            for c in e.comparators:
                self.typ(c)
            return frozenset({"builtin:bool"})
        if isinstance(e, ast.Lambda):
            fi = ix.func_of_node.get(id(e))
            return frozenset({f"func:{fi.qualname}"}) if fi else UNKNOWN
        if isinstance(e, ast.Starred):
            return self.typ(e.value)
        if isinstance(e, (ast.Yield, ast.YieldFrom, ast.Await)):
            if e.value is not None:
                self.typ(e.value)
            if not isinstance(e, ast.Await):
                self.ret = self.ret | {"builtin:generator"}
            return UNKNOWN
        if isinstance(e, ast.NamedExpr):
            t = self.typ(e.value)
            self.assign(e.target, t, e.value)
            return t
        if isinstance(e, ast.Slice):
            for x in (e.lower, e.upper, e.step):
                if x is not None:
                    self.typ(x)
            return frozenset({"builtin:slice"})
        if isinstance(e, ast.Subscript):
            bt = self.typ(e.value)
            self.typ(e.slice)
            out = set()
            for t in bt:
                if t in ix.classes:
                    gi = ix.find_method(t, "__getitem__")
                    if gi:
                        self.site(e, [gi], "method", bt)
                        out |= T.ret_types.get(gi.qualname, UNKNOWN)
                    else:
                        out.add("?")
                elif t in ("builtin:str",):
                    out.add(t)
                elif t in ("builtin:list", "builtin:tuple") and isinstance(e.slice, ast.Slice):
                    out.add(t)
                else:
                    out.add("?")
            return frozenset(out) if out else UNKNOWN
        if isinstance(e, ast.Attribute):
            bt = self.typ(e.value)
            return self.attr_type(e, bt)
        if isinstance(e, ast.Call):
            return self.call(e)
        if isinstance(e, ast.FormattedValue):
            return self.typ(e.value)
        return UNKNOWN

    def attr_type(self, e: ast.Attribute, bt: frozenset) -> frozenset:
        ix, T = self.ix, self.T
        out = set()
        name = e.attr
        for t in bt:
            if t in ix.classes:
                fa = ix.find_attr(t, name)
                if fa is None:
                    out.add("?")
                elif fa[0] == "property":
                    getter = ix.find_method(t, name)
                    self.site(e, [getter], "property", bt)
                    fld = ix.property_field(t, name)
                    if fld:
                        out |= T.field_types(t, fld)
                    else:
                        out |= T.ret_types.get(getter.qualname, UNKNOWN) or UNKNOWN
                elif fa[0] == "method":
                    out.add(f"func:{ix.find_method(t, name).qualname}")
                elif fa[0] == "classattr":
                    v = ix.classes[fa[1]].class_attrs[name]
                    out |= T._type_module_expr(ix.classes[fa[1]].module, v) if v is not None else UNKNOWN
                else:
                    out |= T.field_types(t, name)
            elif t.startswith("type:") and t[5:] in ix.classes:
                k = t[5:]
                fa = ix.find_attr(k, name)
                if fa and fa[0] in ("method", "property"):
                    out.add(f"func:{ix.find_method(k, name).qualname}")
                elif fa and fa[0] == "classattr":
                    v = ix.classes[fa[1]].class_attrs[name]
                    out |= T._type_module_expr(ix.classes[fa[1]].module, v) if v is not None else UNKNOWN
                else:
                    out.add("?")
            else:
                out.add("?")
        if out == {"?"} or not out:
            # module attribute?
            r = ix.resolve_expr(self.f.module, e, self.f)
            if r:
                if r[0] == "class":
                    return frozenset({f"type:{r[1]}"})
                if r[0] == "func":
                    return frozenset({f"func:{r[1]}"})
        return frozenset(out) if out else UNKNOWN

    # ------------------------------------------------------------------ calls
    def site(self, node, targets, kind, recv=None, weak=False, classes=()):
        targets = [t for t in targets if t is not None]
        cs = CallSite(node, self.f, targets, kind, recv, weak, classes)
        if self.record:
            self.sites.append(cs)
        return cs

    def bind(self, target: FuncInfo, call: ast.Call, skip_self: bool, arg_types: List[frozenset], kw_types: Dict[str, frozenset]):
        if not self.record:
            return
        params = target.params
        if skip_self and params:
            params = params[1:]
        a = target.node.args
        for i, t in enumerate(arg_types):
            if i < len(params):
                if t is not None:
                    self.T.pending.setdefault((target.qualname, params[i]), set()).update(t)
                else:
                    # starred argument: unknown spread
                    for p in params[i:]:
                        self.T.pending.setdefault((target.qualname, p), set()).add("?")
                    break
        names = set(target.all_params)
        for k, t in kw_types.items():
            if k in names:
                self.T.pending.setdefault((target.qualname, k), set()).update(t)

    def call(self, e: ast.Call) -> frozenset:
        ix, T = self.ix, self.T
        arg_types: List[Optional[frozenset]] = []
        for a in e.args:
            if isinstance(a, ast.Starred):
                self.typ(a.value)
                arg_types.append(None)
            else:
                arg_types.append(self.typ(a))
        kw_types = {}
        for k in e.keywords:
            t = self.typ(k.value)
            if k.arg:
                kw_types[k.arg] = t
        fn = e.func

        # super().m(...)
        if isinstance(fn, ast.Attribute) and isinstance(fn.value, ast.Call) and isinstance(fn.value.func, ast.Name) and fn.value.func.id == "super":
            cls = self.f.cls or (self.ix.functions[self.f.parent].cls if self.f.parent else None)
            if cls:
                m = ix.mro(cls)[1:]
                # super() inside a mixin: next class in the MRO of any subclass
                cands = []
                for c in m:
                    fi = ix.classes[c].methods.get(fn.attr)
                    if fi:
                        cands.append(fi)
                        break
                for sub in ix.subclasses(cls):
                    mm = ix.mro(sub)
                    i = mm.index(cls)
                    for c in mm[i + 1:]:
                        fi = ix.classes[c].methods.get(fn.attr)
                        if fi:
                            if fi not in cands:
                                cands.append(fi)
                            break
                if cands:
                    self.site(e, cands, "method", frozenset({cls}))
                    out = frozenset()
                    for fi in cands:
                        self.bind(fi, e, True, arg_types, kw_types)
                        out |= T.ret_types.get(fi.qualname, UNKNOWN)
                    return out or UNKNOWN
            return UNKNOWN

        # getattr(self, f"build_{x}")(...)  -- builder dispatch
        if isinstance(fn, ast.Call) and isinstance(fn.func, ast.Name) and fn.func.id == "getattr" and len(fn.args) >= 2:
            recv_t = self.typ(fn.args[0])
            pre = None
            a1 = fn.args[1]
            if isinstance(a1, ast.JoinedStr):
                pre = self.fstring_prefix(a1)
            elif isinstance(a1, ast.Name):
                pre = self.str_prefix.get(a1.id)
            self.typ(a1)
            if pre:
                targets = []
                for t in recv_t:
                    if t in ix.classes:
                        for c in [t] + ix.subclasses(t):
                            names = set()
                            for k in ix.mro(c):
                                names |= {m for m in ix.classes[k].methods if m.startswith(pre)}
                            for m in sorted(names):
                                fi = ix.find_method(c, m)
                                if fi and fi not in targets:
                                    targets.append(fi)
                if targets:
                    self.site(e, targets, "builder", recv_t)
                    out = frozenset()
                    for fi in targets:
                        self.bind(fi, e, True, arg_types, kw_types)
                        out |= T.ret_types.get(fi.qualname, UNKNOWN)
                    return out or UNKNOWN
            return UNKNOWN

        ft = self.typ(fn) if not isinstance(fn, ast.Attribute) else None

        if isinstance(fn, ast.Attribute):
            bt = self.typ(fn.value)
            name = fn.attr
            # visitor dispatch
            vis = [t for t in bt if t in ix.classes and T.is_visitor(t)]
            if name == "visit" and vis:
                a0 = arg_types[0] if arg_types and arg_types[0] is not None else UNKNOWN
                targets = []
                for v in vis:
                    for fi in T.visit_targets(v, a0):
                        if fi not in targets:
                            targets.append(fi)
                self.site(e, targets, "visit", bt)
                out = frozenset()
                for fi in targets:
                    # bind only the argument types that dispatch to this handler
                    sub = set()
                    for t in a0:
                        if t == "?":
                            sub.add("?")
                            continue
                        for v in vis:
                            for c in [v] + ix.subclasses(v):
                                if fi in T.visit_targets(c, frozenset({t}), include_subclasses=False):
                                    sub.add(t)
                    at = [frozenset(sub) if sub else UNKNOWN] + arg_types[1:]
                    self.bind(fi, e, True, at, kw_types)
                    out |= T.ret_types.get(fi.qualname, UNKNOWN)
                self.T.expr_types[id(fn)] = UNKNOWN
                return out or UNKNOWN
            targets, classes, out = [], [], set()
            resolved_any = False
            for t in bt:
                if t in ix.classes:
                    fams = [t] + ix.subclasses(t)
                    found = False
                    for c in fams:
                        fi = ix.find_method(c, name)
                        if fi is not None:
                            found = True
                            if fi.is_property:
                                # calling the value of a property (e.g. gate.gate_def(...), gatedef.ideal_unitary(...))
                                self.site(fn, [fi], "property", bt)
                                fld = ix.property_field(c, name)
                                resolved = False
                                if fld:
                                    for x in T.field_types(c, fld):
                                        if x in ix.classes:
                                            for k2 in [x] + ix.subclasses(x):
                                                ci = ix.find_method(k2, "__call__")
                                                if ci is not None and ci not in targets:
                                                    targets.append(ci)
                                                    resolved = True
                                if not resolved:
                                    out.add("?")
                                continue
                            if fi not in targets:
                                targets.append(fi)
                    if not found:
                        # attribute holding a callable (self.prepare_def()) -> type of field
                        ftypes = T.field_types(t, name)
                        for x in ftypes:
                            if x in ix.classes:
                                ci = ix.find_method(x, "__call__")
                                if ci and ci not in targets:
                                    targets.append(ci)
                            elif x.startswith("type:") and x[5:] in ix.classes:
                                classes.append(x[5:])
                            elif x.startswith("func:"):
                                fi = ix.functions.get(x[5:])
                                if fi and fi not in targets:
                                    targets.append(fi)
                            else:
                                out.add("?")
                    resolved_any = resolved_any or found
                elif t.startswith("type:") and t[5:] in ix.classes:
                    fi = ix.find_method(t[5:], name)
                    if fi is not None and fi not in targets:
                        targets.append(fi)
                        resolved_any = True
            if targets or classes:
                static_like = False
                self.site(e, targets, "method", bt, classes=tuple(classes))
                for fi in targets:
                    skip = not fi.is_staticmethod and fi.cls is not None
                    self.bind(fi, e, skip, arg_types, kw_types)
                    out |= T.ret_types.get(fi.qualname, UNKNOWN)
                for k in classes:
                    out.add(k)
                    init = ix.find_method(k, "__init__")
                    if init:
                        self.site(e, [init], "constructor", classes=(k,))
                        self.bind(init, e, True, arg_types, kw_types)
                return frozenset(out) if out else UNKNOWN
            # module-qualified call  (circuitbuilder.build(...), numpy.abs(...))
            r = ix.resolve_expr(self.f.module, fn, self.f)
            if r:
                return self.call_binding(e, r, arg_types, kw_types)
            # builtin container methods
            if any(t.startswith("builtin:") for t in bt):
                if name in ("copy",):
                    return frozenset(t for t in bt if t.startswith("builtin:"))
                if name in ("values", "items", "keys"):
                    return frozenset({"builtin:iter"})
                if name in ("get", "pop"):
                    return UNKNOWN
                return UNKNOWN
            # unresolved receiver: weak by-name edges
            if name not in COMMON_METHOD_NAMES and not name.startswith("__"):
                weak = []
                for c in ix.classes.values():
                    fi = c.methods.get(name)
                    if fi is not None and not fi.is_property:
                        weak.append(fi)
                if weak:
                    self.site(e, weak, "method", bt, weak=True)
            return UNKNOWN

        # plain name / other callee expression
        if isinstance(fn, ast.Name):
            if fn.id in self.env:
                ft = self.env[fn.id]
                return self.call_values(e, ft, arg_types, kw_types)
            r = ix.resolve_name(self.f.module, fn.id, self.f)
            if r:
                return self.call_binding(e, r, arg_types, kw_types)
            if fn.id == "type" and len(e.args) == 1 and not e.keywords and arg_types and arg_types[0]:
                # type(x) with x : K is the class K itself (calling it constructs a K)
                ks = frozenset(f"type:{t}" for t in arg_types[0] if t in ix.classes)
                if ks:
                    return ks
            if fn.id in BUILTIN_RET:
                return frozenset({BUILTIN_RET[fn.id]})
            return UNKNOWN
        if ft is not None:
            return self.call_values(e, ft, arg_types, kw_types)
        return UNKNOWN

    def call_values(self, e, ft, arg_types, kw_types) -> frozenset:
        """Call of a value whose type set is ft."""
        ix, T = self.ix, self.T
        out = set()
        for t in ft:
            if t.startswith("func:"):
                fi = ix.functions.get(t[5:])
                if fi:
                    self.site(e, [fi], "function")
                    skip = fi.cls is not None and not fi.is_staticmethod
                    self.bind(fi, e, skip, arg_types, kw_types)
                    out |= T.ret_types.get(fi.qualname, UNKNOWN)
            elif t.startswith("type:") and t[5:] in ix.classes:
                out |= self.construct(e, t[5:], arg_types, kw_types)
            elif t in ix.classes:
                ci = ix.find_method(t, "__call__")
                if ci:
                    self.site(e, [ci], "method", ft)
                    self.bind(ci, e, True, arg_types, kw_types)
                    out |= T.ret_types.get(ci.qualname, UNKNOWN)
                else:
                    out.add("?")
            else:
                out.add("?")
        return frozenset(out) if out else UNKNOWN

    def construct(self, e, k, arg_types, kw_types) -> frozenset:
        init = self.ix.find_method(k, "__init__")
        if init:
            self.site(e, [init], "constructor", classes=(k,))
            self.bind(init, e, True, arg_types, kw_types)
        else:
            self.site(e, [], "constructor", classes=(k,))
        return frozenset({k})

    def call_binding(self, e, r, arg_types, kw_types) -> frozenset:
        ix, T = self.ix, self.T
        if r[0] == "class":
            return self.construct(e, r[1], arg_types, kw_types)
        if r[0] == "func":
            fi = ix.functions[r[1]]
            self.site(e, [fi], "function")
            skip = fi.cls is not None and not fi.is_staticmethod
            self.bind(fi, e, skip, arg_types, kw_types)
            return T.ret_types.get(fi.qualname, UNKNOWN) or UNKNOWN
        if r[0] == "ext":
            last = r[1].split(".")[-1]
            if last in BUILTIN_RET:
                return frozenset({BUILTIN_RET[last]})
        return UNKNOWN
