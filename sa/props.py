"""Per-property metadata used by the driver (levels, explanations, trusted base)."""

TB = [
    "CPython 3.12 ast / re._parser (source parsing only)",
    "networkx (graph search)",
    "the analysers in /verif/sa (tested both ways by sa.selftest)",
]

PROPS = {}


def _p(pid, level, explanation, trusted=None):
    PROPS[pid] = {"level": level, "explanation": explanation, "trusted_base": trusted or TB}


_p("C04", "other",
   "Static necessary conditions of 'macro expansion preserves meaning': per-field information-flow necessity (READ: a read of the field reaches the result; CTOR: a rebuilt node's constructor argument depends on the input's field) for MacroExpander and GateReplacer, splice-guard dependence, arity check dominating substitution (CFG), closure of gate statements through the macro lookup, and exhaustive visiting of Parameter positions. Decides those clauses for every input program; does not decide equality of meaning.")

NOT_APPLICABLE = {}

# properties whose rule sets are still being built in this round (removed from here as they land)
PENDING = {
    f"C{n:02d}": "check under construction in this round (see DESIGN.md section 10); not yet claimed"
    for n in range(1, 21)
}

_p("C05", "other",
   "Static necessary conditions of 'let substitution preserves meaning in the chosen environment': every IR position that can hold a Constant is visited/resolved by LetFiller or RegisterVisitor; the override lookup, keyed by the constant's name, dominates the declared-value return (CFG); per-field information-flow necessity for everything the pass must preserve; IR-constructor arguments that must be objects never receive an S-expression from a visit handler; Parameter objects are not resolved like constants. Decides those clauses for all programs and override dictionaries; does not decide equality of meaning.")
PENDING.pop("C04", None); PENDING.pop("C05", None)

_p("C09", "other",
   "Static necessary conditions of 'subcircuit blocks mean prepare_all ... measure_all': the replacement list has the prepare call first and the measure call last around the visited body; the expander constructs no block with subcircuit set and visits every statement container (circuit body, macro bodies); per-field information-flow necessity for block kind, loop fields and all header fields; every entry point that feeds DiscoverSubcircuits applies the same set of normalising passes (call-graph set comparison); control-flow order of the bounding-gate choice. Decides those clauses for all programs; does not decide that execution results are identical.")
PENDING.pop("C09", None)

_p("C19", "other",
   "Static necessary conditions of 'unit-timing normalisation preserves the lock-step schedule': per-field information-flow necessity for header fields and subcircuit annotation/count through BlockNormalizer (and that the unrolling helper reads the annotation before dissolving a block); in every generator loop of the pass each iterated element is appended/extended/yielded or rejected on every path (CFG path query, None-padding filter recognised); a LoopStatement met while chunking raises JaqalError. Decides those clauses for all programs; does not decide equality of time steps.")
PENDING.pop("C19", None)

_p("C10", "other",
   "Static necessary conditions of 'passes commute, are idempotent and keep circuits legal': in parse_jaqal_string each flag guards exactly the call of its pass on the running circuit value, override_dict is forwarded, and alias fill-in is dominated by let substitution (CFG); wherever a gate may expand to a macro body the rebuilding visitor splices same-kind child blocks (legal nesting); MapFiller visits every container that can hold qubit references and preserves every field the other passes consume (field-flow necessity). The elimination clauses behind idempotence are decided under C04.4, C05.1 and C09.2. Does not decide commutation up to meaning.")
PENDING.pop("C10", None)

_p("C07", "other",
   "Static necessary conditions of lexical identifier resolution: memo-key completeness for the gate memo table of Builder (the key consults the context for every argument form through which construction consults it, including nested forms), precedence of macro parameters over the enclosing context in the merge used to build macro bodies (idiom table), and that re-linking of macro bodies returns the original node only under a 'changed' test and preserves every block/loop/macro field when it rebuilds (field-flow CTOR rule). Decides those clauses for all programs; does not decide equality of meaning for all placements.")
PENDING.pop("C07", None)

_p("C01", "other",
   "Static clauses of the generator/parser round trip. C01.1 is an exact decision: the regular language the number printer can emit (derived from the formatter found in the generator; CPython float-repr language) is included in the lexer's NUMBER/INT token languages (automata built from the token regexes with re._parser), no earlier-ordered lexer rule matches a prefix of a printed literal, the token conversions are the inverse of the formatter and the formatter is lossless; violations come with the shortest witness literal. C01.2: identifier regex inclusion and the qubit-reference template. C01.3: information-flow necessity -- the printer reads every IR field that has a textual representation. C01.5: IR-valued holes are printed through the value printer. Does not decide equality of the re-parsed circuit for every program.")
PENDING.pop("C01", None)

_p("C02", "other",
   "Static clauses of 'the parser accepts exactly the Jaqal grammar, layout-insensitively'. C02.1: the productions are extracted from the sly @_() decorators (always-raising actions and the experimental branch tokens removed) and the token-level language is compared with a reference Jaqal grammar for ALL token strings up to length 8 (quick) / 10 (thorough) by exhaustive bounded enumeration; the shortest string in the symmetric difference is reported. C02.2: header/body typestate decided on the CFGs of the top_statement actions. C02.3: every value-bearing RHS symbol of every production flows into the action's result (no statement dropped). C02.4: exact regular-language conditions on the comment/whitespace tokens (line comment has no newline, block comment ends at the first `*/`, only blanks are ignored). C02.5: the error handler is total for token=None. Does not decide that the S-expression equals the grammar's tree for every text, nor the column arithmetic.")
PENDING.pop("C02", None)

_p("C11", "proof",
   "Ownership/effect analysis (sound over-approximation of writes within the stated model): every syntactic mutation site (mutating container methods, attribute/item stores and deletes, augmented assignments, setattr) in every function reachable from the nine pass/analysis entry points is an obligation; the abstract value of its receiver (fresh allocation / visitor-owned state / input / global / unknown, with constructor and field summaries, symbolic return summaries and parameter grounding over all call sites) must exclude INPUT. If all obligations discharge, no call history of these entry points can modify an input circuit, under the listed assumptions. A receiver that stays UNKNOWN is reported as undecided and downgrades the level for that run. A positive control (an embedded violating pass) must be flagged on every run.",
   )
PROPS["C11"]["technique"] = "static analysis: ownership/effect abstract interpretation over the call graph"
PENDING.pop("C11", None)

_p("C16", "other",
   "Static clauses of 'failures are JaqalErrors with a position; no sticky state'. C16.1: exception-escape analysis over the call graph from the nine parse/execute entry points (explicit raise statements, handler coverage lexically and at every call site, sly dispatch of parser/lexer actions, self-calls refined to constructed classes): every class that can escape is a JaqalError or an ImportError. C16.2: the sly Lexer subclass overrides error() with an always-raising JaqalError body. C16.3: no dereference after a joined `is None` test. C16.5: no unbound names and no un-imported submodule uses in reachable functions. C16.7: every raise_error() is preceded by a set_pos(). C16.8: history-dependence anti-patterns. This rule set detects; it does not prove absence of implicit exceptions (TypeError/KeyError from dynamically typed values) nor termination.")
PENDING.pop("C16", None)

_p("C14", "other",
   "Static necessary conditions of 'no program is accepted with a reference that cannot be honoured': every comparison of an index or slice bound with a register size that guards a raise in core/register.py has a matching lower-bound comparison on the same quantity (two-sidedness; the lexer's INT pattern is checked to admit a sign); duplicate-definition, unknown-identifier, unknown-gate, arity and validate-all checks dominate the constructions they protect (CFG must-pass-through); Parameter.validate is exhaustive over ParamType with reject-by-default branches; the subscript in build_array_item is applied only to indexable context values; precedence of gate sources in update_gates. Does not decide 'at the latest when the value becomes known' for all programs.")
PENDING.pop("C14", None)

_p("C13", "other",
   "Static necessary conditions of 'used-qubit analysis is exact; overlapping parallel branches are rejected': exhaustiveness of the used-qubit visitor family over nodes that contain statements or qubits (its default is silent) and visiting of every child container; the collision raise depends on the disjoint flag and the intersection, and the emulator's walker passes a flag that follows block.parallel; idle/busy definition table and expansion of the `all` marker; merge by set union with a symmetric test; register sizes that may be let constants are converted before integer use; macro-call arguments are resolved in the caller's scope before entering the callee's. Does not decide exactness of the index sets for all alias chains (arithmetic).")
PENDING.pop("C13", None)

_p("C06", "other",
   "Static necessary conditions of 'every qubit reference resolves to the right physical qubit': taint analysis showing that no consumer (emulator, pyGSTi circuit builder, used-qubit analysis, alias fill-in, result layer) lets a raw alias_index reach arithmetic or an external constructor -- the physical index must come from resolve_qubit; every attribute read on a receiver whose type is known from the visitor convention / constructors / isinstance exists on that type (323-odd typed reads); slice arithmetic is computed only in core/register.py. Does not decide the affine composition start+i*step itself.")
PENDING.pop("C06", None)

_p("C03", "other",
   "Narrow structural claim for a numerical property: qubit operands reach the emulator's index arithmetic only through resolve_qubit (taint); every call of a gate's ideal unitary passes the classical arguments splatted positionally; classical and quantum arguments are separated by pairing definition parameters with statement arguments positionally and gates are applied in serialisation order; the backend only receives circuits that passed all three normalising passes and skips gates without a unitary. The arithmetic of the bit-twiddling matrix product is declined (numerical); its wiring is decided by C03.14.")
PENDING.pop("C03", None)

_p("C18", "other",
   "Static necessary conditions of 'gate definitions check calls; idle and stretched variants act as specified': positional and keyword calls fill the same ordered dict keyed by parameter names in definition order, mixing and unknown keywords are rejected (the arity and kind checks themselves are decided under C14.2/C14.3); the idle definition takes its parent's parameter list, refuses prepare/measure, and add_idle_gates keeps every gate and adds its idle twin; in stretched_gates no escaping closure refers to a variable the loop rebinds, the wrapper calls its parent's unitary with all arguments but the last splatted, and the parameter list is a copy with exactly one trailing FLOAT. Does not decide numeric equality of the unitaries.")
PENDING.pop("C18", None)

_p("C20", "other",
   "Static necessary conditions of 'circuit equality is an equivalence consistent with meaning': for every IR class the __eq__ it uses reads every semantic field stored by __init__ on both operands (per-symbol exemptions with reasons); element-wise pairings are length-sensitive (zip_longest or a length comparison, never a bare zip); every __eq__ is total (a foreign operand yields False, not AttributeError -- a necessary condition of symmetry); no field is compared by identity and no __eq__ returns True before all fields are read. Reflexivity/symmetry/discrimination as run-time facts are not decided.")
PENDING.pop("C20", None)

_p("C15", "other",
   "Static necessary conditions of 'result views are normalised and mutually consistent (little-endian)': every int->bitstring conversion in the result layer is binary, padded to the number of measured qubits and reversed, and the string->int conversion reverses too (same parity: qubit 0 = LSB = leftmost character); every *_by_str view enumerates the same data as its *_by_int sibling in integer order; accept_readout appends once and adds exactly 1 to the readout's own bin; deprecated aliases return the view of the same kind. Unrecognised conversion idioms are reported as undecided. Normalisation arithmetic (clip, division) is declined.")
PENDING.pop("C15", None)

_p("C08", "other",
   "Narrow structural claim: every process_trace implementation (emulator walker, hardware-output parser) selects self.subcircuits[self.index], builds exactly one Readout numbered with the running readout index, passes it to accept_readout of that same subcircuit, appends it to one result list and advances the readout index by one (sibling agreement of effect summaries); the base walker advances self.index on every path after each process_trace call (CFG) and its loop handler repeats the body loop.iterations times with the walk state restored; counting in accept_readout is decided under C15.3. Termination and visit order of the trace walker are declined (no sound static rule without false alarms).")
PENDING.pop("C08", None)

_p("C17", "other",
   "Static necessary conditions of 'Jaqal text, the builder API and Q-syntax build the same circuit': S-expression protocol agreement -- every list/tuple display with a known head emitted by the parser actions, Q-syntax, the OO builder and the two re-serialising passes is consumed by a build_<head> whose destructuring accepts its arity (starred parts of parser actions are resolved through per-nonterminal length sets), and no default-argument path emits both the default and the missing argument; every parameter of the public builder / Q methods reaches the emitted S-expression or returned object (no dead parameter); the auto-namer checks generated names against both user-name lists and only leaves its loop on a fresh name; the implicit prepare/measure are guarded by one flag around the statement loop and the starts_with_prepare overrides have the stated shape. Does not decide equality of the three circuits.")
PENDING.pop("C17", None)

# clauses added after seed rounds 3 and 4 (DESIGN.md section 11, "Additions ...")
_FZ = " Falsy-zero analysis (E10): no value slot that can hold the number 0 (count, index, macro argument, let value, S-expression argument, numeric grammar value) is tested by truthiness in the modules implementing this property."
_FP = " Fast-path rule: a path that returns (part of) its input untransformed is guarded by a test that consults every part it skips."
ADDENDA = {
    "C01": _FZ + " C01.8: keyword calls fill the argument dict in definition order (the generator prints arguments positionally).",
    "C02": _FZ,
    "C03": " C03.5: once the trace has started the serialiser emits a loop body exactly range(loop.iterations) times. C03.6: no memoised function returns a freshly allocated mutable buffer (state vectors handed out would be overwritten).",
    "C04": _FZ + _FP + " C04.8: the substitution map is keyed by the inlined macro's own parameter names (positional binding).",
    "C05": _FZ + _FP,
    "C06": " C06.5: alias fill-in tests a qubit's dependence on macro parameters before the context-free resolve_qubit(). C06.6-8 scope discipline: the resolution context is consulted by name only for macro parameters; no table keyed by the bare name of a visited reference; re-serialising passes hand the builder resolved objects, not name-bearing S-expressions.",
    "C07": _FP + " C07.5-7 scope discipline (as C06.6-8). C07.8: while NamedQubit.__eq__ compares the source by name, __hash__ includes the source object (the builder's memo keys on built objects).",
    "C08": " C08.4: a handler that delegates inside `for .. in range(n)` under the walker's waiting while-loop treats n <= 0 explicitly (termination for zero-count loops). C08.5: the zero-count branch skips only traces that start inside the loop.",
    "C09": _FZ + _FP + " C09.8: expand_macros inlines the macro table's entry, not the definition object a call statement carries (other passes rebuild macros without re-linking calls).",
    "C10": _FZ + _FP + " C10.5: a subcircuit block replaced by a plain block is spliced into a sequential parent (one open known finding). C10.8: int()/float() of a value slot outside let substitution only under an isinstance test for plain numbers. C10.9: macro table lookup. C10.10: symbolic qubits inside macros are left alone by alias fill-in.",
    "C13": _FZ + " C13.2: the disjointness flag is block.parallel itself, nothing weaker. C13.6: the scope in which call arguments are resolved is not written in the same handler.",
    "C16": " C16.12 computed range() steps are tested against zero; C16.13 handlers that swallow int()/float() failures cover TypeError, ValueError and OverflowError (ValueError for lexer text); C16.14 class-specific attributes of context look-ups are read under isinstance; C16.15 zero-trip loops under a waiting while; C16.16 sys.modules registration/eviction/rollback (one open known finding); C16.17 every entry point that reaches a recursion cycle converts RecursionError above it; C16.18 no memoised function returns a mutable buffer.",
    "C17": _FZ,
    "C18": " C18.1 also decides bulk fills (params.update(kwargs) follows the caller's keyword order) and recognises three spellings of unknown-keyword rejection.",
    "C19": _FP + " C19.5: the unroller keeps a block whole iff parallel or subcircuit, with no further conjunct.",
    "C20": _FZ + " C20.6: no __eq__ result depends on a numeric type test of one operand outside the NaN case.",
}
for _pid, _txt in ADDENDA.items():
    if _pid in PROPS:
        PROPS[_pid]["explanation"] += _txt

# clauses added after the defect hunts (DESIGN.md section 11, "Defect hunts ...")
ADDENDA2 = {
    "C01": " C01.9 numeric literals are keyed type-exactly in the gate memo; C01.10 the NUMBER rule rejects non-finite values.",
    "C02": " C02.7 builder bookkeeping keys are not spellable as identifiers; C02.8 no token language is shadowed by an earlier lexer rule (decided on the automata).",
    "C04": " C04.9 a map-declared qubit alias keeps its name through macro expansion.",
    "C05": " C05.8 no computed alias size is frozen into a bound at build time; C05.9 declared alias names are kept; C05.10 overriding values pass through the normaliser applied to declared values.",
    "C06": " C06.9 (as C05.8); C06.10 alias fill-in tests the resolved register's name against the enclosing macro's parameters; the symbolic-qubit guard covers let constants.",
    "C07": " C07.9 (as C02.7); C07.10 (as C05.9); C07.11 (as C01.9).",
    "C08": " C08.6 subcircuit discovery rejects traces closed or left open inside a body that does not run exactly once.",
    "C09": " C09.9 a visitor that constructs Macro objects re-links macro calls.",
    "C10": " C10.11 (as C06.10).",
    "C13": " C13.1 also requires that a subcircuit block counts as all qubits.",
    "C14": " C14.2 repeated macro parameter names are rejected; C14.4 counts arising by macro substitution are kind-checked and register sizes are positive.",
    "C15": " C15.7 every padded bit-string view takes its width from measured_qubits.",
    "C16": " C16.7 the parser's error callback computes a position on both paths; C16.19 (as C01.10); C16.20 file-based module loading tests the very file/directory first.",
    "C17": " C17.8 every front end resolves pulse modules through the one loader.",
    "C18": " C18.3 stretched variants are keyed by a real name; C18.4 Parameter.validate performs no numeric conversion of the candidate value.",
    "C19": " C19.6 the normaliser handles every statement container, loops included.",
    "C20": " C20.7 a case split in __eq__ on a property of self is matched by a test of the same property on other.",
}
for _pid, _txt in ADDENDA2.items():
    if _pid in PROPS:
        PROPS[_pid]["explanation"] += _txt

ADDENDA3 = {
    "C02": " C02.9 identifier tokens are period-joined sequences of core.identifier components (automata inclusion).",
    "C04": " C04.10 expand_macros converts RecursionError (recursion cycles of the call graph).",
    "C05": " C05.11 overriding values are finite.",
    "C10": " C10.1 decides the parser's pass selection and order by simulating the flag tests over all 8 flag assignments; C10.12 the passes convert RecursionError; C10.13 alias fill-in exempts whole-register arguments of macro calls.",
    "C13": " C13.5 also covers range(resolve_size()).",
    "C14": " C14.4 also requires that every argument of a macro call is checked before substitution can drop it, and C14.1 that lower and upper bound tests are alternatives with the right strictness.",
    "C16": " C16.21 len(range(..)) over program bounds, gate-table look-ups and file-system probes are converted to JaqalError/ImportError.",
}
for _pid, _txt in ADDENDA3.items():
    if _pid in PROPS:
        PROPS[_pid]["explanation"] += _txt

ADDENDA4 = {
    "C01": " C01.11 the value writer is total over Integral/Real numbers and never returns None; C01.12 lexer keywords are reserved words; C01.13 a macro call obeys the subcircuit nesting rule, memoized or not.",
    "C05": " C05.13 a constant defined by another constant is followed to its number.",
    "C08": " C08.7 every execution of a job counts its own readouts (fresh subcircuit objects).",
    "C13": " C13.8 statements and macro bodies built ahead of the circuit are relinked to the circuit's definitions; C13.9 a made-up bounding gate is busy; C13.10 reported indices are integers; C13.11 subcircuit state is not carried between parallel branches.",
    "C15": " C15.10 the qubit count sizing IPC result views is an integer; C15.11 per-execution readout counters; C15.12 outcomes are tallied as plain integers.",
    "C18": " C18.5 receiver of keyword-taking gate calls is positional-only; C18.6 the appended stretch parameter has an unused name; C18.7 stretched table keys agree; C18.8 memo look-up tolerates unhashable arguments; C18.9 integral-float test follows constants of constants.",
    "C20": " C20.8 Register equality does not recurse along an alias chain.",
}
for _pid, _txt in ADDENDA4.items():
    if _pid in PROPS:
        PROPS[_pid]["explanation"] += _txt

ADDENDA5 = {
    "C01": " C01.12 also decides the polarity of is_identifier_valid.",
    "C03": " C03.7 argument roles, qubit position element and initial state of the emulator; C03.8 the trace serialiser uses children only through self.visit (per occurrence).",
    "C04": " C04.11 per-occurrence visiting in the macro expansion visitors.",
    "C05": " C05.14 per-occurrence visiting in the let filler.",
    "C06": " C06.11 per-occurrence visiting in the map filler; C06.12 the symbolic-dependence test is exhaustive; C06.13 the macro-register exemption is a conjunction.",
    "C08": " C08.8 per-occurrence visiting in discovery and trace walkers; C08.9 polarity of the open/close/leave/fire tests; C08.10 readout indices start at 0.",
    "C09": " C09.10 per-occurrence visiting in the subcircuit expander.",
    "C10": " C10.14 per-occurrence visiting in all passes; C10.15 the macro-register exemption is a conjunction.",
    "C13": " C13.12 per-occurrence visiting in the used-qubit visitors; C13.13 polarity of the scope helpers and use of the context argument.",
    "C15": " C15.13 clip bounds, normalisation and cutoff of probabilities; C15.14 readout indices start at 0.",
    "C19": " C19.7 per-occurrence visiting in the normaliser.",
    "C20": " C20.9 field comparisons in __eq__ are equalities.",
}
for _pid, _txt in ADDENDA5.items():
    if _pid in PROPS:
        PROPS[_pid]["explanation"] += _txt

ADDENDA6 = {
    "C06": " C06.14 slice components are computed from the component of the same name with defaults only under a None test.",
    "C14": " C14.7 slice components are computed from the component of the same name with defaults only under a None test.",
    "C08": " C08.11 every returning path of a discovery handler visits the children.",
    "C09": " C09.11 every returning path of an expander handler visits the children; C09.12 the relinking table is bound before macro bodies are visited.",
    "C10": " C10.16 every returning path of a pass handler visits the children.",
    "C13": " C13.14 every returning path of a used-qubit handler visits the children.",
    "C18": " C18.10 idle twins of stretched gates are made for idle inputs only and named name + suffix.",
    "C20": " C20.10 no __eq__ converts an operand before comparing.",
}
for _pid, _txt in ADDENDA6.items():
    if _pid in PROPS:
        PROPS[_pid]["explanation"] += _txt

ADDENDA7 = {
    "C01": " C01.14 is_identifier_valid uses the identifier regex.",
    "C03": " C03.9 fundamental registers come from the register table.",
    "C05": " C05.15 polarity of the constant-of-constant branch.",
    "C06": " C06.15 slice defaults are start 0 and step 1.",
    "C14": " C14.8 slice defaults are start 0 and step 1.",
    "C08": " C08.12 discovery records closed traces, refuses under the positive loop conditions, the walker gives up only without traces, one parsed subcircuit per trace.",
    "C13": " C13.15 shape of the collision test and its disjoint flag; C13.16 fundamental registers; C13.17 polarity of the parallel-state refusal; C13.18 polarity of the relinker's changed flag and identity test.",
    "C16": " C16.22 argument order where names tell (isinstance/getattr/named parameters).",
    "C18": " C18.11 unitary wrapper polarity; C18.12 suffix default polarity.",
    "C20": " C20.11 no disjunction of field comparisons; Register walk guard.",
}
for _pid, _txt in ADDENDA7.items():
    if _pid in PROPS:
        PROPS[_pid]["explanation"] += _txt

ADDENDA8 = {
    "C02": " C02.10 the builder's block flag is restored; C02.11 memoised macro descent; C02.12 file text is read untranslated.",
    "C04": " C04.12 splice compares block kinds; C04.13 polarity of the count-kind refusal.",
    "C05": " C05.16 fillers keep definitions of non-macro statements; C05.17 visited fields are not re-used raw.",
    "C06": " C06.16 None-default polarity; C06.17 fillers keep definitions; C06.18 Constant.__int__ follows constants of constants.",
    "C07": " C07.9 macro arguments are resolved in the caller's scope or the analysis fails.",
    "C08": " C08.13 discovery results, first trace, fire level and exhaustion test of the walker.",
    "C09": " C09.13 the relink condition is a conjunction.",
    "C10": " C10.17 fillers keep definitions; C10.18 visited fields are not re-used raw.",
    "C13": " C13.19 snapshot elements are compared with their sources; C13.20 None-default polarity.",
    "C14": " C14.9 range validation guard; C14.10 None-default polarity; C14.11 check_argument walk; C14.12 count integrality; C14.13 unknown gates in pre-built statements are refused; C14.14 every component of a relative module name is used (open finding).",
    "C15": " C15.15 clipping error term and warning guard.",
    "C16": " C16.23 end-of-input position; C16.24 memoised macro descent; C16.25 Q-syntax conversions guarded; C16.26 egg search total; C16.27 float parameter range; C16.28 token positions in lexer actions.",
    "C17": " C17.9 unknown gates in pre-built statements are refused like in text.",
    "C18": " C18.13 kind reads in validate are guarded; C18.14 float parameter range.",
    "C20": " C20.12 NaN clause is a conjunction.",
}
for _pid, _txt in ADDENDA8.items():
    if _pid in PROPS:
        PROPS[_pid]["explanation"] += _txt

ADDENDA9 = {
    "C01": " C01.15 contains_subcircuit answers correctly; C01.16 a zero slice step is refused unconditionally.",
    "C03": " C03.10 unknown gates are passed over only when busy (made-up bounding gates).",
    "C06": " C06.19 polarity of Constant.__int__.",
    "C08": " C08.14 more discovery and walker guards; C08.15 made-up bounding gates are emulated as no-ops; C08.16 wrap-around test on the trace open at entry.",
    "C13": " C13.21 every state field in the parallel refusal; C13.22 identity in the relinker; C13.23 made-up bounding gates are busy.",
    "C14": " C14.15 marker value and injected-over-imported; C14.16 zero step refused unconditionally.",
    "C15": " C15.16 the total error is |total - 1|.",
    "C18": " C18.15 stretch polarities; C18.16 abstract number types in validate; C18.17 unique parameter names.",
    "C20": " C20.13 isnan guarded; C20.14 parameter/constant equality is symmetric.",
}
for _pid, _txt in ADDENDA9.items():
    if _pid in PROPS:
        PROPS[_pid]["explanation"] += _txt


ADDENDA10 = {
    "C01": " C01.17 the reserved words are consulted; C01.18 positive type tests in the value writer.",
    "C03": " C03.12 sense of the distinct-qubits refusal; C03.13 the address of the walk is a balanced stack and the start / end tests of trace_statements have the stated sense; C03.14 shape of the sparse product (row decoded from the output index, column encoding the input index, same qubit order on both sides, running bit, cleared mask, buffers exchanged and cleared) -- the arithmetic is still not evaluated.",
    "C06": " C06.20 _depends_on_parameter walks while there is a link; C06.21 absent slice bounds get their defaults.",
    "C08": " C08.20 the trace walk returns early only without traces; C08.21 the address of the walk is a balanced stack (every yield and pop after exactly one push, every push popped before the exit, counter and last component move together) and the start / end tests of trace_statements have the stated sense; C08.22 the superseded-after-gates refusal compares the gate count with its snapshot at entry of the body.",
    "C09": " C09.15 the subcircuit builder writes the count it is given; C09.16 no rebuilding visitor decides `unchanged` by structural equality of a visited child.",
    "C13": " C13.24 condition under which a made-up definition is busy; C13.25 the relinker passes every constructor field; C13.26 the parallel-branch refusal does not read the loop variables; C13.27 the splice tests of macro expansion are plain conjuncts; C13.28 no `unchanged` decision by structural equality.",
    "C14": " C14.17 upper bound compared when the size is known; C14.18 absent slice bounds get their defaults; C14.19 each symbolic component of Register / NamedQubit has a kind guard that reads its own kind.",
    "C15": " C15.17 the trace walk returns early only without traces; C15.18 sense of the two cutoffs.",
    "C16": " C16.30 sense of the distinct-qubits refusal; C16.31 the memo of contains_subcircuit is only made when absent; C16.32 every import call reachable from the eviction in jaqal_import is rolled back by a restoring handler.",
    "C18": " C18.19 AbstractGate.copy applies each override when it is given.",
    "C04": " C04.14 the splice tests of macro expansion (same kind, not a subcircuit) are plain conjuncts.",
    "C12": " C12.10 the superseded-after-gates refusal compares the gate count with its snapshot at entry of the body.",
}
for _pid, _txt in ADDENDA10.items():
    if _pid in PROPS:
        PROPS[_pid]["explanation"] += _txt


_p("C12", "other",
   "Narrow structural claim: the guards that the property's sentences name are present in DiscoverSubcircuits with the stated sense -- "
   "a trace is opened on the prepare gate and closed on the measure gate (positive equality); a measure gate without an open trace is refused; "
   "an ordinary gate met while no trace is open is refused; a closed trace is recorded; the two refusals for loop bodies that do not run exactly "
   "once fire under `reps != 1`, the wrap-around one asking whether the trace open at entry was measured in the body; a trailing open trace is "
   "dropped and an empty result returned only when there is none. The acceptance set as a whole -- a state machine over every nesting, loop "
   "count and macro expansion -- is not decided (DESIGN.md section 5).")
PENDING.pop("C12", None)
