"""Per-property metadata used by the driver (levels, explanations, trusted base)."""

TB = [
    "CPython 3.12 ast / re._parser (source parsing only)",
    "networkx (graph search)",
    "the analysers in /verif/sa (tested both ways by sa.selftest)",
]

PROPS = {}


def _p(pid, level, explanation, trusted=None):
    PROPS[pid] = {"level": level, "explanation": explanation, "trusted_base": trusted or TB}


_p("C04", "other",
   "Static necessary conditions of 'macro expansion preserves meaning': per-field information-flow necessity (READ: a read of the field reaches the result; CTOR: a rebuilt node's constructor argument depends on the input's field) for MacroExpander and GateReplacer, splice-guard dependence, arity check dominating substitution (CFG), closure of gate statements through the macro lookup, and exhaustive visiting of Parameter positions. Decides those clauses for every input program; does not decide equality of meaning.")
