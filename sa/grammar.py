"""E6 -- grammar toolkit: CFGs over token alphabets, bounded language enumeration."""

from __future__ import annotations

from typing import Dict, List, Optional, Set, Tuple

from .index import AnalysisError


class Grammar:
    def __init__(self, prods: Dict[str, List[Tuple[str, ...]]], start: str):
        self.prods = {k: list(dict.fromkeys(v)) for k, v in prods.items()}
        self.start = start

    @property
    def nonterminals(self) -> Set[str]:
        return set(self.prods)

    @property
    def terminals(self) -> Set[str]:
        out = set()
        for rhss in self.prods.values():
            for rhs in rhss:
                for s in rhs:
                    if s not in self.prods:
                        out.add(s)
        return out

    def count(self) -> int:
        return sum(len(v) for v in self.prods.values())

    # ----------------------------------------------------------------- trims
    def without_terminals(self, banned: Set[str]) -> "Grammar":
        """Sub-language of strings that do not contain the banned terminals."""
        prods = {a: [r for r in rhss if not (set(r) & banned)] for a, rhss in self.prods.items()}
        return Grammar(prods, self.start).trim()

    def without_productions(self, drop) -> "Grammar":
        prods = {a: [r for r in rhss if not drop(a, r)] for a, rhss in self.prods.items()}
        return Grammar(prods, self.start).trim()

    def trim(self) -> "Grammar":
        """Remove non-generating and unreachable nonterminals."""
        prods = {a: list(r) for a, r in self.prods.items()}
        nts = set(prods)
        gen: Set[str] = set()
        changed = True
        while changed:
            changed = False
            for a, rhss in prods.items():
                if a in gen:
                    continue
                for r in rhss:
                    if all((s not in nts) or (s in gen) for s in r):
                        gen.add(a)
                        changed = True
                        break
        prods = {a: [r for r in rhss if all((s not in nts) or (s in gen) for s in r)] for a, rhss in prods.items() if a in gen}
        reach = set()
        stack = [self.start] if self.start in prods else []
        while stack:
            a = stack.pop()
            if a in reach:
                continue
            reach.add(a)
            for r in prods[a]:
                for s in r:
                    if s in prods and s not in reach:
                        stack.append(s)
        prods = {a: r for a, r in prods.items() if a in reach}
        if self.start not in prods:
            prods[self.start] = []
        return Grammar(prods, self.start)

    # ----------------------------------------------------------- first sets
    def nullable(self) -> Set[str]:
        nl: Set[str] = set()
        changed = True
        while changed:
            changed = False
            for a, rhss in self.prods.items():
                if a not in nl and any(all(s in nl for s in r) for r in rhss):
                    nl.add(a)
                    changed = True
        return nl

    def first(self) -> Dict[str, Set[str]]:
        nl = self.nullable()
        fi: Dict[str, Set[str]] = {a: set() for a in self.prods}
        changed = True
        while changed:
            changed = False
            for a, rhss in self.prods.items():
                for r in rhss:
                    for s in r:
                        add = fi[s] if s in self.prods else {s}
                        if not add <= fi[a]:
                            fi[a] |= add
                            changed = True
                        if s not in nl:
                            break
        return fi

    # ---------------------------------------------------------- enumeration
    def enumerate(self, n: int, alphabet: Optional[List[str]] = None) -> Tuple[Set[bytes], List[str]]:
        """All terminal strings of length <= n derivable from the start symbol, as
        bytes over the index of each terminal in ``alphabet``."""
        alphabet = alphabet or sorted(self.terminals)
        if len(alphabet) > 250:
            raise AnalysisError("too many terminals")
        code = {t: bytes([i]) for i, t in enumerate(alphabet)}
        nts = list(self.prods)
        S: Dict[str, List[Set[bytes]]] = {a: [set() for _ in range(n + 1)] for a in nts}

        def sym_strings(s, j):
            if s in S:
                return S[s][j]
            if j == 1:
                return {code[s]} if s in code else set()
            return ()

        for k in range(n + 1):
            changed = True
            while changed:
                changed = False
                for a in nts:
                    tgt = S[a][k]
                    for rhs in self.prods[a]:
                        cur: Dict[int, Set[bytes]] = {0: {b""}}
                        for idx, s in enumerate(rhs):
                            nxt: Dict[int, Set[bytes]] = {}
                            rest_min = 0
                            for l, strs in cur.items():
                                for j in range(0, k - l + 1):
                                    ss = sym_strings(s, j)
                                    if not ss:
                                        continue
                                    bucket = nxt.setdefault(l + j, set())
                                    if l == 0:
                                        bucket |= ss if isinstance(ss, set) else set(ss)
                                    else:
                                        for x in strs:
                                            for y in ss:
                                                bucket.add(x + y)
                            cur = nxt
                            if not cur:
                                break
                        new = cur.get(k)
                        if new and not new <= tgt:
                            tgt |= new
                            changed = True
        out: Set[bytes] = set()
        for k in range(n + 1):
            out |= S[self.start][k]
        return out, alphabet


def parse_reference(text: str) -> Grammar:
    prods: Dict[str, List[Tuple[str, ...]]] = {}
    start = None
    for line in text.splitlines():
        line = line.split("#", 1)[0].rstrip()
        if not line.strip():
            continue
        if ":" not in line:
            raise AnalysisError(f"bad reference grammar line: {line!r}")
        lhs, rhs = line.split(":", 1)
        lhs = lhs.strip()
        if start is None:
            start = lhs
        alts = _split_alts(rhs)
        for alt in alts:
            from .lexer import split_rhs

            prods.setdefault(lhs, []).append(tuple(split_rhs(alt)))
    if start is None:
        raise AnalysisError("empty reference grammar")
    return Grammar(prods, start)


def _split_alts(rhs: str) -> List[str]:
    """Split on | outside quotes."""
    out, cur, q = [], [], None
    for ch in rhs:
        if q:
            cur.append(ch)
            if ch == q:
                q = None
        elif ch in "\"'":
            q = ch
            cur.append(ch)
        elif ch == "|":
            out.append("".join(cur))
            cur = []
        else:
            cur.append(ch)
    out.append("".join(cur))
    return out


def render(word: bytes, alphabet: List[str]) -> str:
    return " ".join(alphabet[b].strip('"') if alphabet[b].startswith('"') else alphabet[b] for b in word)
