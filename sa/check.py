"""Driver:  /venv/bin/python -m sa.check <property id> [--tier quick|thorough]

Exit codes: 0 rule set held (KNOWN-FINDING lines allowed), 1 at least one
violation not in known_findings.json, 2 ANALYSIS-ERROR.
"""

from __future__ import annotations

import argparse
import importlib
import json
import os
import sys
import traceback

from . import REPO
from .index import Index, load_sources, AnalysisError
from .report import Report, split_known, write_evidence, VERIF, UNDECIDED


class Ctx:
    """Shared, lazily built analyses over one source map."""

    def __init__(self, sources=None, tier="quick", repo=REPO):
        self.repo = repo
        self.tier = tier
        self.sources = sources if sources is not None else load_sources(repo)
        self._ix = None
        self._typer = None
        self._strict = None
        self.cache = {}

    @property
    def ix(self) -> Index:
        if self._ix is None:
            self._ix = Index(self.sources)
        return self._ix

    @property
    def typer(self):
        if self._typer is None:
            from .typing import Typer

            self._typer = Typer(self.ix, duck=True)
        return self._typer

    @property
    def strict(self):
        """Typer without duck inference (for universally quantified rules)."""
        if self._strict is None:
            from .typing import Typer

            self._strict = Typer(self.ix, duck=False)
        return self._strict


def run_property(pid: str, ctx: Ctx, tier: str) -> Report:
    rep = Report(pid, tier)
    mod = importlib.import_module(f"sa.rules.{pid.lower()}")
    mod.run(ctx, rep)
    from .rules import wave3, sweep2, sweep3, sweep4, round10, sweep5
    for ext in (wave3, sweep2, sweep3, sweep4, round10, sweep5):
        for fn, rule, *extra in ext.EXTRA.get(pid, []):
            fn(ctx, rep, rule, *extra)
    return rep


def main(argv=None) -> int:
    ap = argparse.ArgumentParser()
    ap.add_argument("property")
    ap.add_argument("--tier", default=os.environ.get("VERIF_TIER", "quick"), choices=["quick", "thorough"])
    ap.add_argument("--repo", default=REPO)
    ap.add_argument("--no-evidence", action="store_true")
    args = ap.parse_args(argv)
    pid = args.property.upper()
    try:
        seed = int(os.environ.get("VERIF_SEED", "0"))
    except ValueError:
        seed = 0
    try:
        from .props import PROPS

        if pid not in PROPS:
            print(f"ANALYSIS-ERROR property={pid} unknown or not claimed")
            return 2
        meta = PROPS[pid]
        ctx = Ctx(tier=args.tier, repo=args.repo)
        rep = run_property(pid, ctx, args.tier)
        extra = {}
        if args.tier == "thorough":
            from .selftest import run_selftests

            st = run_selftests(pid)
            extra["selftest"] = st
            if st.get("failed"):
                print(f"ANALYSIS-ERROR property={pid} selftest failed: {st['failed']}")
                return 2
            # the verdicts must not depend on layout or comments: same obligations on a re-printed source map
            import ast as _ast

            norm = {}
            for p_, t_ in ctx.sources.items():
                try:
                    norm[p_] = _ast.unparse(_ast.parse(t_)) + "\n"
                except SyntaxError:
                    norm[p_] = t_
            rep2 = run_property(pid, Ctx(sources=norm, tier=args.tier, repo=args.repo), args.tier)
            ka = {(o.rule, o.construct, o.verdict) for o in rep.obligations}
            kb = {(o.rule, o.construct, o.verdict) for o in rep2.obligations}
            extra["reformat_invariance"] = {"equal": ka == kb, "obligations": len(ka), "only_original": sorted(map(str, ka - kb))[:10], "only_reprinted": sorted(map(str, kb - ka))[:10]}
            if ka != kb:
                print(f"ANALYSIS-ERROR property={pid} verdicts depend on source layout: {sorted(ka ^ kb)[:3]}")
                return 2
        new, old = split_known(rep)
        level = meta["level"]
        if level == "proof" and any(o.verdict == UNDECIDED for o in rep.obligations):
            level = "other"
            rep.notes.append("some obligations undecided: level downgraded from proof for this run")
        if not args.no_evidence:
            write_evidence(
                rep, level, meta["explanation"],
                checker_cmd=f"/venv/bin/python -m sa.check {pid} --tier {args.tier}",
                trusted_base=meta["trusted_base"], seed=seed, extra=extra,
            )
        for v, k in old:
            print(f"KNOWN-FINDING: property={pid} {v.rule} {v.construct}: {k.get('what', v.detail)}")
        for rs in rep.rules.values():
            for w in rs.warnings:
                print(f"WARNING property={pid} {rs.rule}: {w}")
        if new:
            os.makedirs(os.path.join(VERIF, "replay"), exist_ok=True)
            path = os.path.join(VERIF, "replay", f"{pid}.json")
            with open(path, "w") as fd:
                json.dump([v.__dict__ for v in new], fd, indent=1, default=str)
            for v in new:
                w = f" witness={v.witness!r}" if v.witness else ""
                print(f"{v.loc} {v.rule} {v.construct}: {v.detail}{w}")
            print(f"VIOLATION property={pid} replay={path}")
            return 1
        n = len([o for o in rep.obligations if o.verdict != "info"])
        und = len([o for o in rep.obligations if o.verdict == UNDECIDED])
        print(f"OK property={pid} tier={args.tier} obligations={n} undecided={und} known={len(old)} wall={rep and round(__import__('time').time()-rep.t0,2)}s")
        return 0
    except AnalysisError as ex:
        print(f"ANALYSIS-ERROR property={pid} {ex}")
        return 2
    except Exception:
        traceback.print_exc()
        print(f"ANALYSIS-ERROR property={pid} internal error in the checker")
        return 2


if __name__ == "__main__":
    sys.exit(main())
