"""Model of the sly lexer/parser classes extracted from the source with ``ast``."""

from __future__ import annotations

import ast
from dataclasses import dataclass, field
from typing import Dict, List, Optional, Tuple

from .index import Index, ClassInfo, FuncInfo, AnalysisError, dotted

SLY_ASSUMPTIONS = [
    "sly 0.5 lexer discipline (read from sly/lex.py): characters in `ignore` are skipped first; all rules form ONE ordered alternation in class-body order of first definition, matched with Python re priority (first alternative that matches, not the longest); single-character `literals` are tried only when no rule matches; otherwise Lexer.error() is called, whose default raises sly.lex.LexError",
    "a token whose name starts with ignore_ (or whose function returns None) is discarded",
    "TOKEN['text'] = NEW remaps a matched token to NEW when its text is exactly 'text'",
]


@dataclass
class LexRule:
    name: str  # token name without the ignore_ prefix
    pattern: str
    ignored: bool
    lineno: int
    func: Optional[FuncInfo] = None
    returns_token: bool = True
    conversion: Optional[str] = None  # 'int' | 'float' | 'int-base2' | None | 'other'


@dataclass
class LexerModel:
    cls: ClassInfo
    rules: List[LexRule] = field(default_factory=list)
    literals: set = field(default_factory=set)
    ignore: str = ""
    tokens: List[str] = field(default_factory=list)
    remap: Dict[Tuple[str, str], str] = field(default_factory=dict)
    error_func: Optional[FuncInfo] = None

    def rule(self, name) -> Optional[LexRule]:
        for r in self.rules:
            if r.name == name:
                return r
        return None

    def index_of(self, name) -> int:
        for i, r in enumerate(self.rules):
            if r.name == name:
                return i
        return -1


def find_sly_subclasses(ix: Index, base: str) -> List[ClassInfo]:
    out = []
    for c in ix.classes.values():
        if any(b in (f"ext:sly.{base}", f"ext:{base}", f"ext:sly.lex.{base}", f"ext:sly.yacc.{base}") for b in c.bases):
            out.append(c)
    return out


def extract_lexer(ix: Index) -> LexerModel:
    classes = find_sly_subclasses(ix, "Lexer")
    if len(classes) != 1:
        raise AnalysisError(f"expected exactly one sly Lexer subclass, found {[c.qualname for c in classes]}")
    c = classes[0]
    m = LexerModel(cls=c)
    order: List[str] = []
    patterns: Dict[str, Tuple[str, int]] = {}
    for st in c.node.body:
        if isinstance(st, ast.Assign) and len(st.targets) == 1:
            t = st.targets[0]
            if isinstance(t, ast.Name):
                if t.id == "literals":
                    if isinstance(st.value, (ast.Set, ast.List, ast.Tuple)):
                        m.literals = {e.value for e in st.value.elts if isinstance(e, ast.Constant)}
                    else:
                        raise AnalysisError("lexer literals is not a set display")
                elif t.id == "tokens":
                    m.tokens = [e.id for e in st.value.elts if isinstance(e, ast.Name)] if isinstance(st.value, (ast.Set, ast.List, ast.Tuple)) else []
                elif t.id == "ignore":
                    if isinstance(st.value, ast.Constant):
                        m.ignore = st.value.value
                elif isinstance(st.value, ast.Constant) and isinstance(st.value.value, str):
                    if t.id not in patterns:
                        order.append(t.id)
                    patterns[t.id] = (st.value.value, st.lineno)
            elif isinstance(t, ast.Subscript) and isinstance(t.value, ast.Name) and isinstance(t.slice, ast.Constant) and isinstance(st.value, ast.Name):
                m.remap[(t.value.id, t.slice.value)] = st.value.id
        elif isinstance(st, ast.FunctionDef):
            if st.name == "error":
                m.error_func = c.methods.get("error")
            if st.decorator_list:
                # @_(pattern) style rules are not used by this repository; refuse to guess
                for d in st.decorator_list:
                    if isinstance(d, ast.Call) and isinstance(d.func, ast.Name) and d.func.id == "_":
                        raise AnalysisError("decorator-style lexer rules are not modelled")
    for name in order:
        pat, ln = patterns[name]
        ignored = name.startswith("ignore_")
        if not ignored and name not in m.tokens:
            continue
        r = LexRule(name=name[7:] if ignored else name, pattern=pat, ignored=ignored, lineno=ln)
        fi = c.methods.get(name)
        if fi is not None:
            r.func = fi
            rets = [n for n in ast.walk(fi.node) if isinstance(n, ast.Return)]
            r.returns_token = any(x.value is not None for x in rets)
            r.conversion = _conversion(fi)
        m.rules.append(r)
    if not m.rules:
        raise AnalysisError("no lexer rules extracted")
    return m


def _conversion(fi: FuncInfo) -> Optional[str]:
    tok = fi.params[1] if len(fi.params) > 1 else None
    for n in ast.walk(fi.node):
        if isinstance(n, ast.Assign) and len(n.targets) == 1:
            t = n.targets[0]
            if isinstance(t, ast.Attribute) and t.attr == "value" and isinstance(t.value, ast.Name) and t.value.id == tok:
                v = n.value
                if isinstance(v, ast.Call) and isinstance(v.func, ast.Name) and v.func.id in ("int", "float"):
                    a0 = v.args[0] if v.args else None
                    plain = isinstance(a0, ast.Attribute) and a0.attr == "value"
                    base = [k for k in v.keywords if k.arg == "base"] or (v.args[1:2])
                    if v.func.id == "float" and plain:
                        return "float"
                    if v.func.id == "int" and plain and not base:
                        return "int"
                    if v.func.id == "int":
                        return "int-other"
                return "other"
    return None


# --------------------------------------------------------------------- parser
@dataclass
class Production:
    lhs: str
    rhs: List[str]
    func: FuncInfo
    lineno: int


@dataclass
class ParserModel:
    cls: ClassInfo
    productions: List[Production] = field(default_factory=list)
    start: str = ""

    def nonterminals(self):
        return sorted({p.lhs for p in self.productions})


def extract_parser(ix: Index) -> ParserModel:
    classes = find_sly_subclasses(ix, "Parser")
    if len(classes) != 1:
        raise AnalysisError(f"expected exactly one sly Parser subclass, found {[c.qualname for c in classes]}")
    c = classes[0]
    pm = ParserModel(cls=c)
    for name, lst in c.methods_all.items():
        for fi in lst:
            for d in fi.node.decorator_list:
                if isinstance(d, ast.Call) and isinstance(d.func, ast.Name) and d.func.id == "_":
                    for a in d.args:
                        if not (isinstance(a, ast.Constant) and isinstance(a.value, str)):
                            raise AnalysisError(f"non-literal production in {fi.qualname}")
                        rhs = split_rhs(a.value)
                        pm.productions.append(Production(lhs=name, rhs=rhs, func=fi, lineno=fi.lineno))
    if not pm.productions:
        raise AnalysisError("no productions extracted from the Parser subclass")
    pm.productions.sort(key=lambda p: p.lineno)
    pm.start = pm.productions[0].lhs
    return pm


def split_rhs(text: str) -> List[str]:
    """Split a sly production string into symbols; quoted literals keep their quotes."""
    out = []
    i = 0
    n = len(text)
    while i < n:
        ch = text[i]
        if ch.isspace():
            i += 1
        elif ch in "\"'":
            j = text.index(ch, i + 1)
            out.append('"' + text[i + 1:j] + '"')
            i = j + 1
        else:
            j = i
            while j < n and not text[j].isspace():
                j += 1
            out.append(text[i:j])
            i = j
    return out
