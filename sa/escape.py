"""Exception-escape analysis over explicit ``raise`` statements.

escapes(f) = classes raised in f and not caught lexically, plus classes
escaping from callees and not caught around the call site.  Only *explicit*
raises are modelled (plus `assert` -> AssertionError when asked to).
"""

from __future__ import annotations

import ast
from typing import Dict, List, Optional, Set, Tuple

from .index import Index, FuncInfo, dotted
from .typing import Typer
from .cfg import walk_no_nested

BUILTIN_BASES = {
    "BaseException": None,
    "Exception": "BaseException",
    "ArithmeticError": "Exception", "ZeroDivisionError": "ArithmeticError", "OverflowError": "ArithmeticError",
    "AssertionError": "Exception", "AttributeError": "Exception", "EOFError": "Exception",
    "ImportError": "Exception", "ModuleNotFoundError": "ImportError",
    "LookupError": "Exception", "IndexError": "LookupError", "KeyError": "LookupError",
    "NameError": "Exception", "UnboundLocalError": "NameError",
    "OSError": "Exception", "FileNotFoundError": "OSError", "IOError": "Exception",
    "RuntimeError": "Exception", "NotImplementedError": "RuntimeError", "RecursionError": "RuntimeError",
    "StopIteration": "Exception", "SyntaxError": "Exception", "TypeError": "Exception",
    "ValueError": "Exception", "UnicodeError": "ValueError", "Warning": "Exception",
    "KeyboardInterrupt": "BaseException", "SystemExit": "BaseException", "GeneratorExit": "BaseException",
}


class Raised:
    __slots__ = ("cls", "func", "node", "path")

    def __init__(self, cls: str, func: FuncInfo, node, path: Tuple[str, ...] = ()):
        self.cls, self.func, self.node, self.path = cls, func, node, path

    def key(self):
        return (self.cls, self.func.qualname, id(self.node))


class EscapeAnalysis:
    def __init__(self, ix: Index, T: Typer, exclude_modules=(), sly_dispatch=True):
        self.ix, self.T = ix, T
        self.exclude = tuple(exclude_modules)
        self.sly_dispatch = sly_dispatch
        self.constructed = self._constructed_classes()
        self.esc: Dict[str, Dict[tuple, Raised]] = {}
        self._try_map_cache: Dict[str, Dict[int, List[ast.Try]]] = {}

    # ------------------------------------------------------------ class facts
    def supers(self, cls: str) -> List[str]:
        """Class name plus all (in-package or builtin) ancestors, as names."""
        out = []
        if cls in self.ix.classes:
            for c in self.ix.mro(cls):
                out.append(c)
                for b in self.ix.classes[c].bases:
                    if b.startswith("ext:"):
                        out += self.supers(b[4:].split(".")[-1])
            return out
        n = cls
        while n is not None:
            out.append(n)
            n = BUILTIN_BASES.get(n)
        if cls not in BUILTIN_BASES:
            out.append("Exception")
            out.append("BaseException")
        return out

    def _constructed_classes(self) -> Set[str]:
        out = set()
        for cs in self.T.all_callsites():
            if cs.kind == "constructor":
                out |= set(cs.classes)
        return out

    def resolve_exc(self, f: FuncInfo, expr) -> Optional[str]:
        if isinstance(expr, ast.Call):
            expr = expr.func
        r = self.ix.resolve_expr(f.module, expr, f)
        if r and r[0] == "class":
            return r[1]
        d = dotted(expr)
        if d:
            return d.split(".")[-1]
        return None

    # ------------------------------------------------------------- try/except
    def _enclosing_tries(self, f: FuncInfo) -> Dict[int, List[Tuple[ast.Try, str]]]:
        """node id -> list of (Try, part) enclosing it, innermost first; part in body/handler/else/final."""
        if f.qualname in self._try_map_cache:
            return self._try_map_cache[f.qualname]
        m: Dict[int, List[Tuple[ast.Try, str]]] = {}

        def walk(node, stack):
            m[id(node)] = list(stack)
            if isinstance(node, (ast.FunctionDef, ast.AsyncFunctionDef, ast.Lambda, ast.ClassDef)) and node is not f.node:
                return
            if isinstance(node, ast.Try):
                for s in node.body:
                    walk(s, [(node, "body")] + stack)
                for h in node.handlers:
                    m[id(h)] = [(node, "handler")] + stack
                    if h.type is not None:
                        walk(h.type, stack)
                    for s in h.body:
                        walk(s, [(node, "handler", h)] + stack)
                for s in node.orelse:
                    walk(s, [(node, "else")] + stack)
                for s in node.finalbody:
                    walk(s, [(node, "final")] + stack)
                return
            for ch in ast.iter_child_nodes(node):
                walk(ch, stack)

        walk(f.node, [])
        self._try_map_cache[f.qualname] = m
        return m

    def caught(self, f: FuncInfo, node, cls: str) -> bool:
        """Is an exception of class cls raised at node caught by an enclosing handler in f
        (that does not simply re-raise it)?"""
        tries = self._enclosing_tries(f).get(id(node), [])
        sup = self.supers(cls)
        for entry in tries:
            t, part = entry[0], entry[1]
            if part != "body":
                continue
            for h in t.handlers:
                if self.handler_catches(f, h, sup):
                    if self.transparent(h):
                        break  # cleanup-and-re-raise: the exception continues outwards
                    return True
        return False

    @staticmethod
    def transparent(h: ast.ExceptHandler) -> bool:
        """A handler that always ends by re-raising what it caught (`except X: <cleanup>; raise`)."""
        if not h.body or not (isinstance(h.body[-1], ast.Raise) and h.body[-1].exc is None):
            return False
        for st in h.body[:-1]:
            for n in ast.walk(st):
                if isinstance(n, (ast.Return, ast.Raise, ast.Break, ast.Continue)):
                    return False
        return True

    def handler_catches(self, f, h: ast.ExceptHandler, sup: List[str]) -> bool:
        if h.type is None:
            return True
        types = h.type.elts if isinstance(h.type, ast.Tuple) else [h.type]
        for t in types:
            name = self.resolve_exc(f, t)
            if name is None:
                continue
            if name in sup or name.split(".")[-1] in [s.split(".")[-1] for s in sup]:
                return True
        return False

    def handler_types(self, f, h) -> List[str]:
        if h.type is None:
            return ["BaseException"]
        types = h.type.elts if isinstance(h.type, ast.Tuple) else [h.type]
        return [n for n in (self.resolve_exc(f, t) for t in types) if n]

    # --------------------------------------------------------------- targets
    def call_targets(self, f: FuncInfo):
        """Yield (call node, [target FuncInfo]) for strong call sites, refined for
        `self.m()` on abstract bases, plus sly dispatch."""
        ix, T = self.ix, self.T
        for cs in T.callsites(f):
            if cs.weak:
                continue
            targets = list(cs.targets)
            node = cs.node
            # refine calls on self to implementations of constructed classes
            if cs.kind in ("method", "visit") and isinstance(node, ast.Call) and isinstance(node.func, ast.Attribute) and isinstance(node.func.value, ast.Name) and f.cls and f.params and node.func.value.id == f.params[0]:
                fam = [c for c in [f.cls] + ix.subclasses(f.cls) if c in self.constructed]
                if fam and cs.kind == "method":
                    refined = []
                    for c in fam:
                        fi = ix.find_method(c, node.func.attr)
                        if fi is not None and fi not in refined:
                            refined.append(fi)
                    if refined:
                        targets = refined
            yield node, targets
        # sly: parser.parse(...) / lexer.tokenize(...) run the subclass's actions
        if self.sly_dispatch:
            for node in walk_no_nested(f.node):
                if isinstance(node, ast.Call) and isinstance(node.func, ast.Attribute) and node.func.attr in ("parse", "tokenize"):
                    for t in T.types_of(node.func.value):
                        if t in ix.classes and any(b.startswith("ext:sly") or b in ("ext:Lexer", "ext:Parser") for b in ix.ext_bases(t)):
                            acts = []
                            for lst in ix.classes[t].methods_all.values():
                                for fi in lst:
                                    if fi.name != "__init__":
                                        acts.append(fi)
                            yield node, acts

    # --------------------------------------------------------------- fixpoint
    def analyse(self, entries: List[str], count_asserts=False):
        ix = self.ix
        # reachable set
        seen: Set[str] = set()
        stack = list(entries)
        edges: Dict[str, List[Tuple[ast.AST, FuncInfo]]] = {}
        while stack:
            q = stack.pop()
            if q in seen or q not in ix.functions:
                continue
            f = ix.functions[q]
            if self.exclude and f.module.startswith(self.exclude):
                continue
            seen.add(q)
            lst = edges.setdefault(q, [])
            for node, targets in self.call_targets(f):
                for t in targets:
                    lst.append((node, t))
                    stack.append(t.qualname)
            # nested functions / lambdas defined here may be called later
            for g in ix.functions.values():
                if g.parent == q:
                    lst.append((g.node, g))
                    stack.append(g.qualname)
        self.reachable = sorted(seen)
        self.edges = edges
        for q in seen:
            self.esc[q] = {}
        # local raises
        for q in seen:
            f = ix.functions[q]
            for n in walk_no_nested(f.node):
                if isinstance(n, ast.Raise):
                    classes = []
                    if n.exc is None:
                        # bare re-raise: classes of the enclosing handler
                        for entry in self._enclosing_tries(f).get(id(n), []):
                            if entry[1] == "handler":
                                if self.transparent(entry[2]) and entry[2].body[-1] is n:
                                    classes = []  # nothing new: what the body raised keeps propagating (see caught())
                                else:
                                    classes = self.handler_types(f, entry[2])
                                break
                    else:
                        c = self.resolve_exc(f, n.exc)
                        if c is None and isinstance(n.exc, ast.Name):
                            # re-raise of a caught exception object: `raise ex`
                            for entry in self._enclosing_tries(f).get(id(n), []):
                                if entry[1] == "handler" and entry[2].name == n.exc.id:
                                    classes = self.handler_types(f, entry[2])
                        elif c is not None:
                            if isinstance(n.exc, ast.Name) and c not in ix.classes and c not in BUILTIN_BASES:
                                for entry in self._enclosing_tries(f).get(id(n), []):
                                    if entry[1] == "handler" and entry[2].name == n.exc.id:
                                        classes = self.handler_types(f, entry[2])
                                if not classes:
                                    classes = [c]
                            else:
                                classes = [c]
                    for c in classes:
                        if not self.caught(f, n, c):
                            r = Raised(c, f, n, (q,))
                            self.esc[q][r.key()] = r
                elif count_asserts and isinstance(n, ast.Assert):
                    if not self.caught(f, n, "AssertionError"):
                        r = Raised("AssertionError", f, n, (q,))
                        self.esc[q][r.key()] = r
        changed = True
        while changed:
            changed = False
            for q in seen:
                f = ix.functions[q]
                for node, t in edges.get(q, []):
                    for k, r in list(self.esc.get(t.qualname, {}).items()):
                        if k in self.esc[q]:
                            continue
                        if isinstance(node, (ast.FunctionDef, ast.Lambda, ast.AsyncFunctionDef)):
                            # definition site of a nested function: assume called where defined
                            is_caught = False
                        else:
                            is_caught = self.caught(f, node, r.cls)
                        if not is_caught:
                            self.esc[q][k] = Raised(r.cls, r.func, r.node, (q,) + r.path)
                            changed = True
        return self

    def escaping(self, entry: str) -> List[Raised]:
        return list(self.esc.get(entry, {}).values())
