"""Regenerate the generated tables of DESIGN.md (findings, seeded changes) between markers.

  /venv/bin/python -m sa.mktables
"""

import json
import os

from .report import VERIF, KNOWN_FINDINGS

SEEDED = os.path.join(VERIF, "seeded")


def findings_table():
    d = json.load(open(KNOWN_FINDINGS))
    rows = ["| property.rule | construct | status | commit | what failed |", "|---|---|---|---|---|"]
    for f in d["findings"]:
        rows.append(f"| {f['rule']} | `{f['construct']}` | {f['status']} | {f.get('commit', '')} | {f['what'].replace('|', '/')} |")
    return "\n".join(rows)


def seeds_table():
    rows = ["| seed | breaks | what it changes / needs | valid | caught by |", "|---|---|---|---|---|"]
    n = det = 0
    for sid in sorted(os.listdir(SEEDED)):
        mp = os.path.join(SEEDED, sid, "meta.json")
        if not os.path.exists(mp):
            continue
        m = json.load(open(mp))
        notes = ""
        np_ = os.path.join(SEEDED, sid, "notes.md")
        if os.path.exists(np_):
            txt = [l.strip("# ").strip() for l in open(np_).read().splitlines() if l.strip()]
            notes = " ".join(txt[:3])[:220].replace("|", "/")
        fired = m.get("checks_fired", {})
        caught = "; ".join(f"{pid}: {v[0].split(' ')[1] if v and len(v[0].split(' ')) > 1 else ''}" for pid, v in fired.items() if "ANALYSIS" not in pid) or ("— (" + m.get("missed_reason", "not detected") + ")")
        if m.get("valid_seed"):
            n += 1
            det += 1 if m.get("detected") else 0
        valid = 'yes' if m.get('valid_seed') else 'no'
        if not m.get('valid_seed') and m.get('obsolete_reason'):
            valid = 'no longer (' + m['obsolete_reason'] + ')'
        rows.append(f"| {sid} | {m.get('property')} | {notes} | {valid} | {caught} |")
    rows.append("")
    rows.append(f"Valid seeds: {n}; detected by at least one check: {det}.")
    return "\n".join(rows)


def replace_between(text, start, end, body):
    i = text.index(start) + len(start)
    j = text.index(end)
    return text[:i] + "\n" + body + "\n" + text[j:]


def main():
    p = os.path.join(VERIF, "DESIGN.md")
    t = open(p).read()
    t = replace_between(t, "<!-- FINDINGS-TABLE -->", "<!-- /FINDINGS-TABLE -->", findings_table())
    t = replace_between(t, "<!-- SEEDS-TABLE -->", "<!-- /SEEDS-TABLE -->", seeds_table())
    open(p, "w").write(t)
    print("DESIGN.md tables regenerated")


if __name__ == "__main__":
    main()
