"""Output-template extraction for the code generator (C01.4).

Each generator function is abstracted into a regular-expression-like tree over
string literals, holes and references to other generator functions.  The tree
is turned into a context-free grammar over *lexer tokens* (literals are
tokenised with the lexer's own patterns) whose bounded language can be checked
against the parser's grammar.
"""

from __future__ import annotations

import ast
from typing import Dict, List, Optional, Tuple

from .index import Index, FuncInfo, AnalysisError
from .cfg import iter_stmts


class Unmodelled(Exception):
    pass


# ---- template nodes: tuples
def Lit(s):
    return ("lit", s)


def Ref(q, assume=()):
    return ("ref", q, tuple(sorted(assume)))


def Hole(kind):
    return ("hole", kind)


def Seq(items):
    flat = []
    for i in items:
        if i is None:
            continue
        if i[0] == "seq":
            flat.extend(i[1])
        else:
            flat.append(i)
    return ("seq", flat)


def Alt(items):
    return ("alt", list(items))


def Star(x):
    return ("star", x)


EMPTY = ("seq", [])


class TemplateExtractor:
    def __init__(self, ix: Index, module: str, value_printer: Optional[str]):
        self.ix = ix
        self.module = module
        self.value_printer = value_printer
        self.funcs: Dict[str, FuncInfo] = {f.name: f for f in ix.functions.values() if f.module == module and f.cls is None and not f.parent}
        self.templates: Dict[str, tuple] = {}
        self.unmodelled: Dict[str, str] = {}
        self.kinds: Dict[str, str] = {}      # function name -> 'block' | 'loop' | 'macro' | ...
        self.block_printer: Optional[str] = None

    def extract_all(self, start: str):
        """Extract the template of ``start`` and, transitively, of every
        (function, assumptions) pair it refers to."""
        self.spec: Dict[tuple, tuple] = {}
        self.pending = [(start, ())]
        while self.pending:
            name, assume = self.pending.pop()
            key = (name, assume)
            if key in self.spec or name in self.unmodelled:
                continue
            f = self.funcs[name]
            try:
                self.spec[key] = self.extract(f, dict(assume))
            except Unmodelled as ex:
                self.unmodelled[name] = str(ex)
        self.templates = {self.nt_name(k): v for k, v in self.spec.items()}
        return self.templates

    @staticmethod
    def nt_name(key):
        name, assume = key
        if not assume:
            return name
        return name + "[" + ",".join(f"{k}={v}" for k, v in assume) + "]"

    def shape_alternatives(self, caller: FuncInfo, callee: FuncInfo, consts: Dict[str, object]) -> List[Dict[str, object]]:
        """IR shape model (assumptions A1-A3 of DESIGN section 11): which block shapes can
        reach the block printer from this call site."""
        if self.block_printer is None or callee.name != self.block_printer:
            return [consts]
        p = callee.params[0]
        par, sub = f"{p}.parallel", f"{p}.subcircuit"
        kind = self.kinds.get(caller.name)
        if kind in ("loop", "macro"):
            # the body of a loop or macro is a plain sequential or parallel block
            return [dict(consts, **{sub: False})]
        if kind == "block":
            cp = caller.params[0]
            parent_par = self.assume.get(f"{cp}.parallel")
            if parent_par is True:
                return [dict(consts, **{par: False, sub: False})]
            if parent_par is False:
                return [dict(consts, **{par: True, sub: False}), dict(consts, **{par: False, sub: True})]
        return [consts]

    def shape_decides(self, test, f: FuncInfo) -> Optional[bool]:
        """A4: the members of a parallel block are gates and sequential blocks, never loops."""
        if self.kinds.get(f.name) != "block" or not f.params:
            return None
        if self.assume.get(f"{f.params[0]}.parallel") is not True:
            return None
        if isinstance(test, ast.Call) and isinstance(test.func, ast.Name) and test.func.id == "isinstance" and len(test.args) == 2:
            cls = test.args[1]
            if isinstance(cls, ast.Name) and cls.id == "LoopStatement":
                return False
        return None

    def add_assumption(self, key, val):
        self.assume[key] = val
        # A1: a subcircuit block is sequential
        if key.endswith(".subcircuit") and val is True:
            self.assume[key[: -len("subcircuit")] + "parallel"] = False

    # ------------------------------------------------------------ statements
    def extract(self, f: FuncInfo, init_assume=None) -> tuple:
        env: Dict[str, tuple] = {}
        body = [s for s in f.node.body if not (isinstance(s, ast.Expr) and isinstance(s.value, ast.Constant))]
        self.assume: Dict[str, bool] = {}
        for k, v in (init_assume or {}).items():
            self.add_assumption(k, v)
        res = self.block(body, env, f)
        if res is None:
            raise Unmodelled("function does not return a string on every path")
        return res

    def block(self, stmts, env, f) -> Optional[tuple]:
        """Process statements; returns the template of the returned string if the block returns."""
        for i, st in enumerate(stmts):
            if isinstance(st, ast.Assert):
                continue
            if isinstance(st, ast.Assign) and len(st.targets) == 1 and isinstance(st.targets[0], ast.Name):
                v = st.value
                name = st.targets[0].id
                if isinstance(v, ast.Constant) and v.value == "":
                    env[name] = EMPTY
                elif isinstance(v, ast.List) and not v.elts:
                    env[name] = EMPTY
                else:
                    env[name] = self.expr(v, env, f)
                continue
            if isinstance(st, ast.AugAssign) and isinstance(st.target, ast.Name) and isinstance(st.op, ast.Add):
                env[st.target.id] = Seq([env.get(st.target.id, EMPTY), self.expr(st.value, env, f)])
                continue
            if isinstance(st, ast.Expr) and isinstance(st.value, ast.Call) and isinstance(st.value.func, ast.Attribute) and st.value.func.attr == "append" and isinstance(st.value.func.value, ast.Name):
                n = st.value.func.value.id
                env[n] = Seq([env.get(n, EMPTY), self.expr(st.value.args[0], env, f)])
                continue
            if isinstance(st, ast.Return):
                if st.value is None:
                    raise Unmodelled("bare return")
                return self.expr(st.value, env, f)
            if isinstance(st, ast.If):
                rest = stmts[i + 1:]
                key = self._pure_cond(st.test)
                shape = self.shape_decides(st.test, f)
                if shape is not None:
                    taken = st.body if shape else st.orelse
                    return self.block(taken + rest, env, f)
                if key is not None and key in self.assume:
                    # the same condition was decided by an enclosing/earlier branch on this path
                    taken = st.body if self.assume[key] else st.orelse
                    return self.block(taken + rest, env, f)
                e1, e2 = dict(env), dict(env)
                saved = dict(self.assume)
                if key is not None:
                    self.add_assumption(key, True)
                # evaluate both continuations completely (body+rest, orelse+rest): exact for structured code
                r1 = self.block(st.body + rest, e1, f)
                self.assume = dict(saved)
                if key is not None:
                    self.add_assumption(key, False)
                r2 = self.block(st.orelse + rest, e2, f)
                self.assume = saved
                if r1 is None and r2 is None:
                    # no return below: merge accumulators (only used for trailing blocks without return)
                    for k in set(e1) | set(e2):
                        env[k] = Alt([e1.get(k, EMPTY), e2.get(k, EMPTY)])
                    return None
                if r1 is None or r2 is None:
                    # one path falls off the end (implicit None): e.g. the value printer
                    return r1 if r2 is None else r2
                return Alt([r1, r2])
            if isinstance(st, ast.For):
                before = dict(env)
                body_env = {k: EMPTY for k in env}
                self._bind_loop(st, body_env)
                r = self.block(st.body, body_env, f)
                if r is not None:
                    raise Unmodelled("return inside a loop")
                for k in env:
                    if body_env.get(k, EMPTY) != EMPTY:
                        env[k] = Seq([before[k], Star(body_env[k])])
                continue
            if isinstance(st, (ast.Pass,)):
                continue
            raise Unmodelled(f"statement {type(st).__name__} at line {st.lineno}")
        return None

    def _bind_loop(self, st, env):
        pass

    @staticmethod
    def _pure_cond(test) -> Optional[str]:
        """Text of a condition made only of names / attribute reads (no calls), else None."""
        for n in ast.walk(test):
            if isinstance(n, (ast.Call, ast.Subscript, ast.Lambda, ast.Await)):
                return None
        return ast.unparse(test)

    @staticmethod
    def _returns(stmts):
        return any(isinstance(s, ast.Return) for s in iter_stmts(stmts))

    # ----------------------------------------------------------- expressions
    def expr(self, e, env, f) -> tuple:
        if isinstance(e, ast.Constant) and isinstance(e.value, str):
            return Lit(e.value)
        if isinstance(e, ast.Name):
            if e.id in env:
                return env[e.id]
            raise Unmodelled(f"unknown string variable {e.id}")
        if isinstance(e, ast.JoinedStr):
            parts = []
            for v in e.values:
                if isinstance(v, ast.Constant):
                    parts.append(Lit(v.value))
                else:
                    parts.append(self.expr(v.value, env, f))
            return Seq(parts)
        if isinstance(e, ast.BinOp) and isinstance(e.op, ast.Add):
            return Seq([self.expr(e.left, env, f), self.expr(e.right, env, f)])
        if isinstance(e, ast.BinOp) and isinstance(e.op, ast.Mult):
            l = e.left
            if isinstance(l, ast.Constant) and isinstance(l.value, str) and l.value.strip(" \t") == "":
                return Star(Lit(l.value))
            raise Unmodelled("string repetition of a non-blank")
        if isinstance(e, ast.BinOp) and isinstance(e.op, ast.Mod) and isinstance(e.left, ast.Constant) and isinstance(e.left.value, str):
            fmt = e.left.value
            args = e.right.elts if isinstance(e.right, ast.Tuple) else [e.right]
            pieces = fmt.split("%s")
            if len(pieces) != len(args) + 1 or "%" in "".join(pieces):
                raise Unmodelled("% format other than %s")
            out = []
            for p, a in zip(pieces, args + [None]):
                out.append(Lit(p))
                if a is not None:
                    out.append(self.expr(a, env, f))
            return Seq(out)
        if isinstance(e, ast.Attribute):
            if e.attr in ("name", "module"):
                return Hole("MODULE" if e.attr == "module" else self._name_kind(e))
            raise Unmodelled(f"attribute .{e.attr} used as a string")
        if isinstance(e, ast.Call):
            fn = e.func
            # "sep".join(iterable)
            if isinstance(fn, ast.Attribute) and fn.attr == "join" and isinstance(fn.value, ast.Constant) and isinstance(fn.value.value, str) and len(e.args) == 1:
                sep = fn.value.value
                return self.join(sep, e.args[0], env, f)
            if isinstance(fn, ast.Name) and fn.id in self.funcs:
                callee = self.funcs[fn.id]
                if callee.qualname == self.value_printer:
                    return Hole(self._value_kind(e.args[0] if e.args else None))
                consts = {}
                for prm, a in zip(callee.params, e.args):
                    if isinstance(a, ast.Constant) and isinstance(a.value, bool):
                        consts[prm] = a.value
                alts = []
                for asm in self.shape_alternatives(f, callee, consts):
                    key = (fn.id, tuple(sorted(asm.items())))
                    if key not in self.spec:
                        self.pending.append(key)
                    alts.append(("ref", self.nt_name(key)))
                return alts[0] if len(alts) == 1 else Alt(alts)
            if isinstance(fn, ast.Name) and fn.id == "str" and len(e.args) == 1:
                return Hole("VALUE")
            raise Unmodelled(f"call {ast.unparse(fn)}")
        if isinstance(e, ast.IfExp):
            return Alt([self.expr(e.body, env, f), self.expr(e.orelse, env, f)])
        raise Unmodelled(f"expression {type(e).__name__}")

    def _name_kind(self, e: ast.Attribute) -> str:
        return "IDENT"

    @staticmethod
    def _value_kind(arg) -> str:
        """What the value printer can print for this argument, from the IR position it is read from."""
        if arg is None:
            return "VALUE"
        attrs = [n.attr for n in ast.walk(arg) if isinstance(n, ast.Attribute)]
        if "value" in attrs:
            return "NUM"  # the value of a let statement: a number
        if any(a in ("size", "alias_index", "iterations", "start", "stop", "step") for a in attrs):
            return "INTLIKE"  # an integer literal or the name of a let constant
        return "VALUE"

    def join(self, sep, arg, env, f) -> tuple:
        def sepnode():
            return Lit(sep) if sep else None

        if isinstance(arg, (ast.Tuple, ast.List)):
            items = []
            first = True
            for el in arg.elts:
                if isinstance(el, ast.Starred):
                    inner = el.value
                    if isinstance(inner, (ast.GeneratorExp, ast.ListComp)):
                        elt = self.expr(inner.elt, env, f)
                    else:
                        raise Unmodelled("starred non-comprehension in join")
                    # (sep elt)* -- a starred part in first position is not used by the generator
                    if first:
                        raise Unmodelled("leading starred element in join")
                    items.append(Star(Seq([sepnode(), elt])))
                else:
                    if not first and sep:
                        items.append(Lit(sep))
                    items.append(self.expr(el, env, f))
                first = False
            return Seq(items)
        if isinstance(arg, (ast.GeneratorExp, ast.ListComp)):
            elt = self.expr(arg.elt, env, f)
            # elt (sep elt)*  or empty
            return Alt([EMPTY, Seq([elt, Star(Seq([sepnode(), elt]))])])
        if isinstance(arg, ast.Name) and arg.id in env:
            if sep:
                raise Unmodelled("join of an accumulated list with a separator")
            return env[arg.id]
        raise Unmodelled("join of an unknown iterable")


# ------------------------------------------------------------------ to grammar
class LiteralTokenizer:
    """Tokenise generator string constants with the lexer model (longest match per
    sly's rule order; all patterns involved are one-unambiguous)."""

    def __init__(self, lexer_model, automata):
        self.lx = lexer_model
        self.auto = automata

    def tokens(self, text: str) -> List[str]:
        out = []
        i = 0
        n = len(text)
        while i < n:
            ch = text[i]
            if ch in self.lx.ignore:
                i += 1
                continue
            matched = None
            for r in self.lx.rules:
                dfa = self.auto.get(r.name)
                if dfa is None:
                    continue
                # longest prefix accepted by this rule
                st = dfa.start
                best = None
                for j in range(i, n):
                    from .regex import _sym

                    st = dfa.trans[st][_sym(ord(text[j]))]
                    if st in dfa.accept:
                        best = j + 1
                if best is not None:
                    matched = (r, best)
                    break
            if matched:
                r, end = matched
                val = text[i:end]
                tok = self.lx.remap.get((r.name, val), r.name)
                if not r.ignored:
                    out.append(tok)
                i = end
                continue
            if ch in self.lx.literals:
                out.append(f'"{ch}"')
                i += 1
                continue
            raise Unmodelled(f"generator literal {text!r} contains a character the lexer rejects: {ch!r}")
        return out


def to_grammar(templates: Dict[str, tuple], tokenizer: LiteralTokenizer, holes: Dict[str, List[List[str]]], start: str):
    """-> (productions dict, start)"""
    from .grammar import Grammar

    prods: Dict[str, List[Tuple[str, ...]]] = {}
    counter = [0]
    glued: List[tuple] = []

    def fresh(prefix):
        counter[0] += 1
        return f"_{prefix}{counter[0]}"

    def conv(node) -> List[str]:
        """Return a symbol sequence deriving the node's language."""
        kind = node[0]
        if kind == "lit":
            return tokenizer.tokens(node[1])
        if kind == "ref":
            return [f"G_{node[1]}"]
        if kind == "hole":
            return [f"H_{node[1]}"]
        if kind == "seq":
            out = []
            prev = None
            for x in node[1]:
                if prev is not None:
                    a, b = _last_char(prev), _first_char(x)
                    if a == "w" and b == "w":
                        glued.append((prev, x))
                if x != ("seq", []):
                    prev = x
                out += conv(x)
            return out
        if kind == "alt":
            nt = fresh("alt")
            prods[nt] = [tuple(conv(x)) for x in node[1]]
            return [nt]
        if kind == "star":
            nt = fresh("star")
            body = conv(node[1])
            if not body:
                return []
            prods[nt] = [(), tuple(body + [nt])]
            return [nt]
        raise Unmodelled(f"node {kind}")

    for name, t in templates.items():
        prods[f"G_{name}"] = [tuple(conv(t))]
    for h, alts in holes.items():
        prods[f"H_{h}"] = [tuple(a) for a in alts]
    g = Grammar(prods, f"G_{start}")
    g.glued = glued
    return g


def _word(ch):
    return ch.isalnum() or ch in "_."


def _first_char(node):
    k = node[0]
    if k == "lit":
        return ("w" if _word(node[1][0]) else "o") if node[1] else None
    if k == "hole":
        return "w"
    if k == "seq":
        for x in node[1]:
            c = _first_char(x)
            if c is not None:
                return c
    return None


def _last_char(node):
    k = node[0]
    if k == "lit":
        return ("w" if _word(node[1][-1]) else "o") if node[1] else None
    if k == "hole":
        return "w" if node[1] in ("IDENT", "MODULE", "NUM", "INTLIKE") else "o"
    if k == "seq":
        for x in reversed(node[1]):
            c = _last_char(x)
            if c is not None:
                return c
    return None


# ------------------------------------------------------------------ recogniser
class Earley:
    def __init__(self, grammar):
        self.g = grammar
        self.nts = set(grammar.prods)
        self.cache: Dict[bytes, bool] = {}

    def accepts(self, word: List[str]) -> bool:
        g = self.g
        n = len(word)
        chart = [set() for _ in range(n + 1)]
        for rhs in g.prods[g.start]:
            chart[0].add((g.start, rhs, 0, 0))
        for i in range(n + 1):
            work = list(chart[i])
            while work:
                lhs, rhs, dot, origin = work.pop()
                if dot < len(rhs):
                    sym = rhs[dot]
                    if sym in self.nts:
                        for r2 in g.prods[sym]:
                            item = (sym, r2, 0, i)
                            if item not in chart[i]:
                                chart[i].add(item)
                                work.append(item)
                        # nullable completion shortcut
                        if any(len(r2) == 0 for r2 in g.prods[sym]) or sym in self._nullable():
                            item = (lhs, rhs, dot + 1, origin)
                            if item not in chart[i]:
                                chart[i].add(item)
                                work.append(item)
                    elif i < n and word[i] == sym:
                        chart[i + 1].add((lhs, rhs, dot + 1, origin))
                else:
                    for (l2, r2, d2, o2) in list(chart[origin]):
                        if d2 < len(r2) and r2[d2] == lhs:
                            item = (l2, r2, d2 + 1, o2)
                            if item not in chart[i]:
                                chart[i].add(item)
                                work.append(item)
        return any(lhs == g.start and dot == len(rhs) and origin == 0 for (lhs, rhs, dot, origin) in chart[n])

    def _nullable(self):
        if not hasattr(self, "_nl"):
            self._nl = self.g.nullable()
        return self._nl
