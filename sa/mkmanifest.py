"""Regenerate /verif/MANIFEST.json from sa.props (run: /venv/bin/python -m sa.mkmanifest)."""

import json
import os

from .props import PROPS, NOT_APPLICABLE, PENDING
from .report import VERIF

BASELINE_OFF = (
    "cd /repo && /venv/bin/python -m pytest -ra -q -p no:cacheprovider --timeout=900 "
    "--continue-on-collection-errors"
)


def main():
    checks = []
    for pid in sorted(PROPS):
        m = PROPS[pid]
        checks.append({
            "property_id": pid,
            "quick_cmd": f"/venv/bin/python -m sa.check {pid} --tier quick",
            "thorough_cmd": f"/venv/bin/python -m sa.check {pid} --tier thorough",
            "evidence_file": f"/verif/evidence/{pid}.json",
            "replay_cmd_template": f"/venv/bin/python -m sa.check {pid} --tier quick  # violations listed in {{path}}",
            "engine": "sa",
            "level_claimed": {
                "category": m["level"],
                "text": m["explanation"],
                "design_ref": f"DESIGN.md section 4 ({pid})",
            },
            "level_note": m.get("note", "Decides the listed static clauses only (necessary conditions of the property); "
                                "trusted base: CPython ast/re._parser, networkx, the analysers in /verif/sa "
                                "(validated by must-fire/must-stay-silent variants in sa.selftest). Nothing from /repo is imported or run."),
            "technique": m.get("technique", "static analysis: custom AST/dataflow checkers"),
        })
    na = [{"property_id": k, "reason": v} for k, v in sorted(NOT_APPLICABLE.items())]
    na += [{"property_id": k, "reason": v} for k, v in sorted(PENDING.items()) if k not in PROPS]
    manifest = {
        "version": 1,
        "setup_cmd": "/venv/bin/python -m compileall -q /verif/sa",
        "hooks": {
            "guard": "HAIKUSW_JAQALPAQ_VERIF",
            "enable": "none needed: static analysis reads /repo/src as text; no instrumentation exists",
            "baseline_off_cmd": BASELINE_OFF,
            "source_commits": [],
            "add_only": True,
        },
        "engines": [{
            "name": "sa",
            "path": "/verif/sa",
            "serves_properties": sorted(PROPS),
            "kind_free_text": "repository-specific static analysers (ast index, visitor-convention typing, call graph, CFG, "
                              "regular-language toolkit over re._parser, grammar extraction, field-flow necessity, "
                              "ownership/effect analysis, taint)",
        }],
        "checks": checks,
        "not_applicable": na,
        "notes": "All checks are static: they read /repo/src/jaqalpaq/**/*.py on every run and never import or execute it. "
                 "Exit 0 ok / 1 VIOLATION / 2 ANALYSIS-ERROR. Known findings: /verif/known_findings.json.",
    }
    with open(os.path.join(VERIF, "MANIFEST.json"), "w") as fd:
        json.dump(manifest, fd, indent=1)
    print("wrote MANIFEST.json with", len(checks), "checks,", len(na), "not applicable")


if __name__ == "__main__":
    main()
