"""Append an entry to known_findings.json:  python -m sa.kf <property> <rule> <construct> <status> <commit|-> <what...>"""
import json, sys
from .report import KNOWN_FINDINGS
def main():
    pid, rule, construct, status, commit = sys.argv[1:6]
    what = " ".join(sys.argv[6:])
    d = json.load(open(KNOWN_FINDINGS))
    e = {"property": pid, "rule": rule, "construct": construct, "status": status, "what": what}
    if commit != "-":
        e["commit"] = commit
        e["line"] = f"fixed: property={pid} {commit} {what}"
    d["findings"] = [x for x in d["findings"] if not (x["property"] == pid and x["rule"] == rule and x["construct"] == construct)] + [e]
    json.dump(d, open(KNOWN_FINDINGS, "w"), indent=1)
main()
