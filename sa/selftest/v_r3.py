"""Variants for the rules added after seed round 3 (C10.8, C10.9/C09.8, C19.5, C20.6, C13.2, C13.6, C18.1/C01.8)."""
from .v_c04 import fire, silent

EM = "src/jaqalpaq/core/algorithm/expand_macros.py"
UT = "src/jaqalpaq/core/algorithm/unit_timing.py"
GT = "src/jaqalpaq/core/gate.py"
GD = "src/jaqalpaq/core/gatedef.py"
UQ = "src/jaqalpaq/core/algorithm/used_qubit_visitor.py"
WK = "src/jaqalpaq/core/algorithm/walkers.py"

VARIANTS = [
    # C10.8 coercion
    fire("r3-filter-float-duck-typed",
         [(EM, "    if isinstance(value, float) and float(value) == int(value):\n        return int(value)\n", "    try:\n        if float(value) == int(value):\n            return int(value)\n    except (TypeError, ValueError):\n        pass\n")],
         ("C10.8", "filter_float:coercion"), ("C10",)),
    silent("r3-filter-float-int-or-float",
           [(EM, "    if isinstance(value, float) and float(value) == int(value):", "    if isinstance(value, (int, float)) and float(value) == int(value):")], ("C10",)),
    # C10.9 / C09.8 table lookup
    # alone this is behaviour preserving now (every Macro-building pass re-links the calls) ...
    silent("r3-inline-statement-definition",
           [(EM, "        macro = macros[gate.name]\n", "        macro = gate.gate_def if isinstance(gate.gate_def, Macro) else macros[gate.name]\n")], ("C10", "C09")),
    # ... but not when a pass rebuilds macros without re-linking
    fire("r3-inline-statement-definition-with-unlinked-pass",
         [(EM, "        macro = macros[gate.name]\n", "        macro = gate.gate_def if isinstance(gate.gate_def, Macro) else macros[gate.name]\n"),
          ("src/jaqalpaq/core/algorithm/expand_subcircuits.py", "    def visit_GateStatement(self, gate):\n", "    def _unused_visit_GateStatement(self, gate):\n")],
         ("*", "replace_gate:inlined-macro-source"), ("C10", "C09")),
    silent("r3-inline-table-get",
           [(EM, "        macro = macros[gate.name]\n", "        macro = macros.get(gate.name)\n")], ("C10", "C09")),
    # C19.5
    fire("r3-unroll-empty-subcircuit-dissolved",
         [(UT, "        if obj.parallel or obj.subcircuit:\n            # This is ok in iter_unroll_blocks", "        if len(obj) and (obj.parallel or obj.subcircuit):\n            # This is ok in iter_unroll_blocks")],
         ("C19.5", "UnrollIterator.visit_BlockStatement:keep-whole-by-kind"), ("C19",)),
    fire("r3-unroll-subcircuit-flattened",
         [(UT, "        if obj.parallel or obj.subcircuit:\n            # This is ok in iter_unroll_blocks", "        if obj.parallel:\n            # This is ok in iter_unroll_blocks")],
         ("*", "UnrollIterator"), ("C19",)),
    silent("r3-unroll-negated-spelling",
           [(UT, "        if obj.parallel or obj.subcircuit:\n            # This is ok in iter_unroll_blocks but would be an error\n            # in iter_chunk_blocks.\n            yield obj\n        else:\n            for stmt in obj.statements:\n                yield stmt",
             "        if not (obj.parallel or obj.subcircuit):\n            for stmt in obj.statements:\n                yield stmt\n        else:\n            yield obj")], ("C19",)),
    # C20.6
    fire("r3-eq-float-only-equals-float",
         [(GT, "            if isinstance(p0, float) and math.isnan(p0):\n                return isinstance(p1, float) and math.isnan(p1)\n",
           "            if isinstance(p0, float):\n                if math.isnan(p0):\n                    return isinstance(p1, float) and math.isnan(p1)\n                return isinstance(p1, float) and p0 == p1\n")],
         ("C20.6", "GateStatement:__eq__:are_equal:numeric-type-test"), ("C20",)),
    # C13.2 exactness of the disjoint flag
    fire("r3-disjoint-only-after-start",
         [(WK, "                indices, self.visit(stmt, context=context), disjoint=block.parallel\n", "                indices, self.visit(stmt, context=context), disjoint=had_started and block.parallel\n")],
         ("C13.2", "DiscoverSubcircuits.visit_BlockStatement:disjoint-follows-parallel"), ("C13",)),
    silent("r3-disjoint-via-local",
           [(WK, "        had_started = self.current is not None\n", "        had_started = self.current is not None\n        exclusive = block.parallel\n"),
            (WK, "                indices, self.visit(stmt, context=context), disjoint=block.parallel\n", "                indices, self.visit(stmt, context=context), disjoint=exclusive\n")], ("C13",)),
    # C13.6 caller scope read-only
    fire("r3-arguments-resolved-in-growing-scope",
         [(UQ, "            arguments = {\n                name: self._resolve_argument(arg, context)\n                for name, arg in obj.parameters.items()\n            }\n            macro_context = {**context, **arguments}\n",
           "            macro_context = dict(context)\n            for name, arg in obj.parameters.items():\n                macro_context[name] = self._resolve_argument(arg, macro_context)\n")],
         ("C13.6", "caller-scope-read-only"), ("C13",)),
    # C18.1 / C01.8 keyword order
    fire("r3-keyword-call-caller-order",
         [(GD, "            try:\n                for param in self.parameters:\n                    params[param.name] = kwargs.pop(param.name)\n            except KeyError as ex:\n                raise JaqalError(\n                    f\"Missing parameter {param.name} for gate {self.name}.\"\n                ) from ex\n            if kwargs:\n",
           "            names = [param.name for param in self.parameters]\n            for name in names:\n                if name not in kwargs:\n                    raise JaqalError(f\"Missing parameter {name} for gate {self.name}.\")\n            params.update(kwargs)\n            kwargs = [name for name in kwargs if name not in names]\n            if kwargs:\n")],
         ("*", "AbstractGate.call:fills:params.update(kwargs)"), ("C18", "C01")),
    silent("r3-keyword-call-checked-then-ordered-fill",
           [(GD, "            try:\n                for param in self.parameters:\n                    params[param.name] = kwargs.pop(param.name)\n            except KeyError as ex:\n                raise JaqalError(\n                    f\"Missing parameter {param.name} for gate {self.name}.\"\n                ) from ex\n            if kwargs:\n",
             "            names = [param.name for param in self.parameters]\n            for name in names:\n                if name not in kwargs:\n                    raise JaqalError(f\"Missing parameter {name} for gate {self.name}.\")\n            params.update({param.name: kwargs.pop(param.name) for param in self.parameters})\n            if kwargs:\n")], ("C18", "C01")),
    # reverting fix 32bcabd
    fire("r3-arguments-bound-by-statement-names",
         [(EM, "        visitor = GateReplacer(arguments, macros)\n", "        visitor = GateReplacer(gate.parameters, macros)\n")],
         ("C04.8", "replace_gate:argument-binding"), ("C04",)),
    # reverting fix ce5e4b4
    fire("r3-mapfiller-resolves-parameter-qubits",
         [("src/jaqalpaq/core/algorithm/fill_in_map.py", "        if _depends_on_parameter(qubit):\n", "        if False:\n")],
         ("*", "MapFiller.visit_NamedQubit:symbolic-qubit-guard"), ("C10", "C06")),
]
