"""Variants for the falsy-zero rule (E10) as attached to C01.7, C02.6, C04.6, C05.6, C17.7, C20.5."""
from .v_c04 import fire, silent

CB = "src/jaqalpaq/core/circuitbuilder.py"
SP = "src/jaqalpaq/parser/slyparse.py"
EM = "src/jaqalpaq/core/algorithm/expand_macros.py"
FL = "src/jaqalpaq/core/algorithm/fill_in_let.py"
GEN = "src/jaqalpaq/generator/generator.py"

VARIANTS = [
    fire("fz-subcircuit-count-not",
         [(CB, '            if count is None or count == "":\n                built_count = 1', "            if not count:\n                built_count = 1")],
         ("*", "Builder.build_subcircuit_block:truthiness:count"), ("C02", "C05", "C17", "C20")),
    fire("fz-subcircuit-count-via-local",
         [(CB, '            count = args[0]\n            if count is None or count == "":', '            count = args[0]\n            given = count\n            if (not given) or count == "":')],
         ("*", "Builder.build_subcircuit_block:truthiness:given"), ("C05",)),
    fire("fz-loop-count-or-default",
         [(CB, "        built_count = self.build_count(count, context, gate_context)\n        built_block = self.build(block, context, gate_context)\n        return LoopStatement(built_count, built_block)",
           "        built_count = self.build_count(count, context, gate_context) or 1\n        built_block = self.build(block, context, gate_context)\n        return LoopStatement(built_count, built_block)")],
         ("*", "Builder.build_loop:truthiness"), ("C17", "C02")),
    fire("fz-parser-count-or-empty",
         [(SP, "        ret.appendleft(tree.let_or_int)\n        ret.appendleft(\"subcircuit_block\")", "        ret.appendleft(tree.let_or_int or \"\")\n        ret.appendleft(\"subcircuit_block\")")],
         ("*", "truthiness:tree.let_or_int"), ("C02", "C17")),
    fire("fz-parser-gate-arg-through-helper",
         [(SP, '    @_("IDENTIFIER", "NUMBER", "INT")\n    def gate_arg(self, tree):\n        return tree[0]',
           '    def _arg(self, v):\n        return v if v else None\n\n    @_("IDENTIFIER", "NUMBER", "INT")\n    def gate_arg(self, tree):\n        return self._arg(tree[0])')],
         ("*", "JaqalParser._arg:truthiness:v"), ("C02",)),
    fire("fz-macro-argument-or-param",
         [(EM, "        if param.name in self.arguments:\n            arg = self.arguments[param.name]\n", "        arg = self.arguments.get(param.name) or param\n        if arg is not param:\n")],
         ("*", "GateReplacer.visit_Parameter:truthiness"), ("C04",)),
    fire("fz-override-value-truthy",
         [(FL, "        if const.name in self.override_dict:\n            value = self.override_dict[const.name]\n            if isinstance(value, float) and not math.isfinite(value):\n                # Infinity and NaN cannot be written in Jaqal\n                raise JaqalError(f\"Cannot override {const.name} with {value}\")\n            # Like a declared value, 4.0 stands for the integer 4\n            return circuitbuilder.as_integer(value)", "        if self.override_dict.get(const.name):\n            return self.override_dict[const.name]")],
         ("*", "LetFiller.resolve_constant:truthiness"), ("C05",)),
    fire("fz-let-index-truthy",
         [(FL, "            new_index = qubit.alias_index\n", "            new_index = qubit.alias_index or None\n", 0)],
         ("*", "truthiness:qubit.alias_index"), ("C05",)),
    fire("fz-generator-count-truthy",
         [(GEN, "        if statement.iterations != 1:", "        if statement.iterations and statement.iterations != 1:")],
         ("*", "truthiness:statement.iterations"), ("C01",)),
    # behaviour-preserving spellings of the same tests
    silent("fz-count-membership-test",
           [(CB, '            if count is None or count == "":', '            if count in (None, ""):')], ("C02", "C05", "C17", "C20")),
    silent("fz-argument-none-test",
           [(EM, "        if param.name in self.arguments:\n            arg = self.arguments[param.name]\n", "        arg = self.arguments.get(param.name)\n        if arg is not None:\n")], ("C04",)),
    silent("fz-statements-truthy",
           [(CB, "            statements = [self.build(arg, context, gate_context) for arg in args[1:]]\n            count = args[0]", "            statements = [self.build(arg, context, gate_context) for arg in args[1:]]\n            if not args[1:]:\n                statements = []\n            count = args[0]")], ("C02", "C05", "C17", "C20")),
]
