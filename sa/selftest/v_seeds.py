"""Every seeded change that some check reports becomes a must-fire variant of the checks that report it
(the patch's hunks are turned into exact-once text edits; a seed whose anchor text has disappeared from
/repo is skipped and listed, like any other variant).  The expectation is deliberately loose -- some new
violation under that property -- because the seed's own meta.json records which rule it was."""
from __future__ import annotations

import json
import os
import re

SEEDED = os.path.join(os.path.dirname(os.path.dirname(os.path.dirname(os.path.abspath(__file__)))), "seeded")


def edits_from_patch(text: str):
    """[(path, old, new)] -- one edit per hunk (context + removed lines -> context + added lines)."""
    edits = []
    path = None
    old = new = None
    start = 1

    def flush():
        nonlocal old, new
        if path and old is not None and (old or new):
            edits.append((path, "".join(old), "".join(new), start))
        old = new = None

    for line in text.splitlines(keepends=True):
        if line.startswith("diff --git"):
            flush()
            path = None
        elif line.startswith("+++ "):
            p = line[4:].strip()
            path = p[2:] if p.startswith("b/") else None
        elif line.startswith("--- ") or line.startswith("index ") or line.startswith("new file") or line.startswith("deleted file") or line.startswith("similarity") or line.startswith("rename"):
            continue
        elif line.startswith("@@"):
            flush()
            old, new = [], []
            m = re.match(r"@@ -(\d+)", line)
            start = int(m.group(1)) if m else 1
        elif old is not None:
            if line.startswith("\\"):
                continue
            if line.startswith("-"):
                old.append(line[1:])
            elif line.startswith("+"):
                new.append(line[1:])
            else:
                body = line[1:] if line.startswith(" ") else line
                old.append(body)
                new.append(body)
    flush()
    return edits


_SRC = None


def _place(e):
    """Where the hunk's text occurs more than once in today's file, pick the occurrence nearest to the hunk's line."""
    global _SRC
    path, old, new, start = e
    if _SRC is None:
        try:
            from ..index import load_sources
            _SRC = load_sources()
        except Exception:
            _SRC = {}
    text = _SRC.get(path)
    if text is None or not old or text.count(old) <= 1:
        return (path, old, new)
    best, k, pos = None, 0, -1
    while True:
        pos = text.find(old, pos + 1)
        if pos < 0:
            break
        line = text.count("\n", 0, pos) + 1
        if best is None or abs(line - start) < best[0]:
            best = (abs(line - start), k)
        k += 1
    return (path, old, new, best[1])


def _variants():
    out = []
    if not os.path.isdir(SEEDED):
        return out
    for sid in sorted(os.listdir(SEEDED)):
        d = os.path.join(SEEDED, sid)
        mp, pp = os.path.join(d, "meta.json"), os.path.join(d, "patch.diff")
        if not (os.path.exists(mp) and os.path.exists(pp)):
            continue
        try:
            meta = json.load(open(mp))
        except Exception:
            continue
        if not (meta.get("valid_seed") and meta.get("detected")) or meta.get("obsolete"):
            continue
        props = sorted(k for k in meta.get("checks_fired", {}) if re.fullmatch(r"C\d\d", k))
        if not props:
            continue
        edits = edits_from_patch(open(pp, encoding="utf-8").read())
        if not edits or any(not e[0].startswith("src/jaqalpaq/") for e in edits):
            continue
        edits = [_place(e) for e in edits]
        out.append({"name": f"seed-{sid}", "kind": "fire", "edits": edits, "expect": ("*", ""), "properties": props})
    return out


VARIANTS = _variants()
