"""Variants taken from the survivors of the third mutation sweep (mutants that
no check reported and that the repository's test suite does not kill): each is
a one-token change that breaks a property."""
from .v_c04 import fire, silent

UN = "src/jaqalpaq/emulator/unitary.py"
WK = "src/jaqalpaq/core/algorithm/walkers.py"
UQ = "src/jaqalpaq/core/algorithm/used_qubit_visitor.py"
FM = "src/jaqalpaq/core/algorithm/fill_in_map.py"
FL = "src/jaqalpaq/core/algorithm/fill_in_let.py"
EM = "src/jaqalpaq/core/algorithm/expand_macros.py"
ES = "src/jaqalpaq/core/algorithm/expand_subcircuits.py"
UT = "src/jaqalpaq/core/algorithm/unit_timing.py"
RG = "src/jaqalpaq/core/register.py"
GD = "src/jaqalpaq/core/gatedef.py"
GT = "src/jaqalpaq/core/gate.py"
ID = "src/jaqalpaq/core/identifier.py"
RS = "src/jaqalpaq/core/result.py"
PA = "src/jaqalpaq/core/parameter.py"

VARIANTS = [
    # ---- emulator roles (C03.7)
    fire("s2-emulator-classical-negated",
         [(UN, "                if param.classical:\n                    argv.append(val)", "                if not param.classical:\n                    argv.append(val)")],
         ("C03.7", "argument-roles"), ("C03",)),
    fire("s2-emulator-qubit-not-collected",
         [(UN, "                    qind.append(val.resolve_qubit()[1])", "                    pass")],
         ("C03.7", "argument-roles"), ("C03",)),
    fire("s2-emulator-register-instead-of-position",
         [(UN, "val.resolve_qubit()[1]", "val.resolve_qubit()[0]")],
         ("C03.7", "qubit-position"), ("C03",)),
    fire("s2-emulator-initial-state",
         [(UN, "        vec[0] = 1\n", "        vec[1] = 1\n")],
         ("C03.7", "initial-state"), ("C03",)),
    # ---- raw children (every visitor)
    fire("s2-serializer-circuit-unvisited",
         [(WK, "        yield from self.visit(circuit.body)", "        yield from circuit.body")],
         ("C03.8", "TraceSerializer.visit_Circuit"), ("C03",)),
    fire("s2-serializer-block-unvisited",
         [(WK, "            yield from self.visit(sub_obj)", "            yield from sub_obj")],
         ("C03.8", "TraceSerializer.visit_BlockStatement"), ("C03",)),
    fire("s2-discover-loop-unvisited",
         [(WK, "        return self.visit(obj.statements, context=context, reps=obj.iterations)", "        return obj.statements")],
         ("*", "DiscoverSubcircuits.visit_LoopStatement"), ("C08", "C13")),
    fire("s2-tracevisitor-loop-unvisited",
         [(WK, "            self.index = index\n            self.visit(loop.statements)", "            self.index = index\n            loop.statements")],
         ("C08.8", "TraceVisitor.visit_LoopStatement"), ("C08",)),
    fire("s2-usedqubits-parallel-unvisited",
         [(UQ, "                    indices, self.visit(sub_obj, context=context), disjoint=True", "                    indices, sub_obj, disjoint=True")],
         ("C13.12", "UsedQubitIndicesVisitor.visit_BlockStatement"), ("C13",)),
    fire("s2-mapfiller-subcircuit-unvisited",
         [(FM, "                *(self.visit(stmt) for stmt in block.statements),\n", "                *(stmt for stmt in block.statements),\n")],
         ("*", "MapFiller.visit_BlockStatement"), ("C06", "C10")),
    fire("s2-mapfiller-case-unvisited",
         [(FM, '        sexpr = ["case", *(self.visit(stmt) for stmt in case.statements)]', '        sexpr = ["case", *(stmt for stmt in case.statements)]')],
         ("*", "MapFiller.visit_CaseStatement"), ("C06", "C10")),
    fire("s2-letfiller-subcircuit-unvisited",
         [(FL, "                *[self.visit(stmt) for stmt in block.statements],\n", "                *[stmt for stmt in block.statements],\n")],
         ("C05.14", "LetFiller.visit_BlockStatement"), ("C05",)),
    fire("s2-expander-loop-unvisited",
         [(EM, "        return LoopStatement(loop.iterations, self.visit(loop.statements))", "        return LoopStatement(loop.iterations, loop.statements)")],
         ("C04.11", "MacroExpander.visit_LoopStatement"), ("C04",)),
    fire("s2-subcircuit-expander-loop-unvisited",
         [(ES, "        return LoopStatement(loop.iterations, self.visit(loop.statements))", "        return LoopStatement(loop.iterations, loop.statements)")],
         ("C09.10", "SubcircuitExpander.visit_LoopStatement"), ("C09",)),
    fire("s2-normalizer-loop-unvisited",
         [(UT, "        return LoopStatement(obj.iterations, self.visit(obj.statements))", "        return LoopStatement(obj.iterations, obj.statements)")],
         ("C19.7", "BlockNormalizer.visit_LoopStatement"), ("C19",)),
    # ---- discovery roles (C08.9)
    fire("s2-discover-measure-negated",
         [(WK, "        elif gate.name == self.m_gate:", "        elif not (gate.name == self.m_gate):")],
         ("C08.9", "DiscoverSubcircuits.visit_GateStatement"), ("C08",)),
    fire("s2-discover-had-started-negated",
         [(WK, "        had_started = self.current is not None", "        had_started = self.current is None")],
         ("C08.9", "DiscoverSubcircuits.visit_BlockStatement:had-started"), ("C08",)),
    fire("s2-walker-prefix-test-negated",
         [(WK, "            if address != self.objective[: len(address)]:\n                assert not first", "            if not (address != self.objective[: len(address)]):\n                assert not first")],
         ("C08.9", "TraceVisitor.visit_BlockStatement"), ("C08",)),
    fire("s2-walker-length-test-negated",
         [(WK, "            if (len(address) + 1) == len(self.objective):", "            if not ((len(address) + 1) == len(self.objective)):")],
         ("C08.9", "TraceVisitor.visit_BlockStatement"), ("C08",)),
    fire("s2-walker-zero-loop-or",
         [(WK, "            while self.objective and self.objective[: len(address)] == address:", "            while self.objective or self.objective[: len(address)] == address:")],
         ("C08.9", "TraceVisitor.visit_LoopStatement"), ("C08",)),
    # ---- used-qubit helper polarity (C13.13)
    fire("s2-resolve-argument-only-when-bound",
         [(UQ, "        if isinstance(arg, Parameter):\n            return self._resolve_argument", "        if isinstance(arg, Parameter) and context and arg.name in context:\n            return self._resolve_argument")],
         ("*", "_resolve_argument:lookup"), ("C13", "C07")),
    fire("s2-resolve-argument-swallows-failure",
         [(UQ, "            reg, idx = arg.resolve_qubit(context)\n            if isinstance(idx, float) and idx.is_integer():\n                idx = int(idx)\n            return reg[idx]", "            try:\n                reg, idx = arg.resolve_qubit(context)\n            except JaqalError:\n                return arg\n            if isinstance(idx, float) and idx.is_integer():\n                idx = int(idx)\n            return reg[idx]")],
         ("*", "_resolve_argument:unresolved-not-forwarded"), ("C13", "C07")),
    fire("s2-resolve-argument-qubit-negated",
         [(UQ, "        if isinstance(arg, NamedQubit):\n            reg, idx = arg.resolve_qubit(context)", "        if not (isinstance(arg, NamedQubit)):\n            reg, idx = arg.resolve_qubit(context)")],
         ("C13.13", "_resolve_argument"), ("C13",)),
    fire("s2-index-truncated",
         [(UQ, "            if isinstance(idx, float) and idx.is_integer():\n                idx = int(idx)\n            return reg[idx]", "            if isinstance(idx, float):\n                idx = int(idx)\n            return reg[idx]")],
         ("C13.13", "integrality"), ("C13",)),
    fire("s2-register-context-dropped",
         [(RG, "        context = context or {}\n\n        size = self.size", "        context = {}\n\n        size = self.size")],
         ("C13.13", "Register.resolve_qubit:context"), ("C13",)),
    fire("s2-qubit-context-dropped",
         [(RG, "        context = context or {}\n        alias_index = self.alias_index", "        context = {}\n        alias_index = self.alias_index")],
         ("C13.13", "NamedQubit.resolve_qubit:context"), ("C13",)),
    # ---- symbolic dependence (C06.12)
    fire("s2-depends-ignores-slice-start",
         [(FM, "for bound in (alias_slice.start, alias_slice.stop, alias_slice.step)", "for bound in (alias_slice.stop, alias_slice.stop, alias_slice.step)")],
         ("C06.12", "_depends_on_parameter"), ("C06",)),
    fire("s2-depends-index-says-no",
         [(FM, '        if isinstance(getattr(obj, "alias_index", None), AnnotatedValue):\n            return True', '        if isinstance(getattr(obj, "alias_index", None), AnnotatedValue):\n            return False')],
         ("C06.12", "_depends_on_parameter"), ("C06",)),
    fire("s2-macro-register-exemption-or",
         [(FM, "        if isinstance(gate.gate_def, Macro) and isinstance(param, Register):", "        if isinstance(gate.gate_def, Macro) or isinstance(param, Register):")],
         ("*", "visit_argument"), ("C10", "C06")),
    # ---- equality polarity (C20.9)
    fire("s2-gatedef-eq-parameters-unequal",
         [(GD, "            return self.name == other.name and self.parameters == other.parameters", "            return self.name == other.name and self.parameters != other.parameters")],
         ("C20.9", "AbstractGate:__eq__"), ("C20",)),
    fire("s2-gate-eq-nan-clause-widened",
         [(GT, "            if isinstance(p0, float) and math.isnan(p0):", "            if isinstance(p0, float):")],
         ("*", "GateStatement"), ("C20",)),
    # ---- identifiers (C01.12)
    fire("s2-identifier-valid-when-reserved",
         [(ID, "    return valid_identifier_regex.match(name) and name not in RESERVED_WORDS", "    return valid_identifier_regex.match(name) and name in RESERVED_WORDS")],
         ("C01.12", "is_identifier_valid"), ("C01",)),
    fire("s2-identifier-valid-or",
         [(ID, "    return valid_identifier_regex.match(name) and name not in RESERVED_WORDS", "    return valid_identifier_regex.match(name) or name not in RESERVED_WORDS")],
         ("C01.12", "is_identifier_valid"), ("C01",)),
    # ---- result normalisation (C15.13)
    fire("s2-clip-lower-bound-one",
         [(RS, "        p_clipped = numpy.clip(p, 0, 1)", "        p_clipped = numpy.clip(p, 1, 1)")],
         ("C15.13", "ProbabilisticSubcircuit.__init__:clip"), ("C15",)),
    fire("s2-normalisation-skipped",
         [(RS, "        if total_err > 0:\n            p /= total", "        if total_err > 1:\n            p /= total")],
         ("C15.13", "ProbabilisticSubcircuit.__init__:normalise"), ("C15",)),
    fire("s2-cutoff-fail-dropped",
         [(RS, "            if err > self.CUTOFF_FAIL:\n                raise RuntimeError(msg)\n", "")],
         ("C15.13", "ProbabilisticSubcircuit.__init__:cutoff"), ("C15",)),
    fire("s2-readout-index-starts-at-one",
         [(RS, "        self.res = []\n        self.readout_index = 0", "        self.res = []\n        self.readout_index = 1")],
         ("*", "readout-index"), ("C08", "C15")),
]

# behaviour-preserving rewrites of the code the clauses above look at
VARIANTS += [
    silent("s2-had-started-double-negative",
           [(WK, "        had_started = self.current is not None", "        had_started = not (self.current is None)")], ("C08",)),
    silent("s2-emulator-quantum-branch-first",
           [(UN, "                if param.classical:\n                    argv.append(val)\n                else:\n                    # The position of the qubit in the fundamental register\n                    # (val may refer to it through map aliases).\n                    qind.append(val.resolve_qubit()[1])",
             "                if not param.classical:\n                    qind.append(val.resolve_qubit()[1])\n                else:\n                    argv.append(val)")], ("C03",)),
    silent("s2-discover-gate-name-on-the-right",
           [(WK, "        if gate.name == self.p_gate:", "        if self.p_gate == gate.name:")], ("C08",)),
    silent("s2-walker-leave-not-equal-spelled-not",
           [(WK, "            if address != self.objective[: len(address)]:\n                assert not first", "            if not (address == self.objective[: len(address)]):\n                assert not first")], ("C08",)),
    silent("s2-clip-float-bounds",
           [(RS, "        p_clipped = numpy.clip(p, 0, 1)", "        p_clipped = numpy.clip(p, 0.0, 1.0)")], ("C15",)),
    silent("s2-normalise-when-total-differs",
           [(RS, "        if total_err > 0:\n            p /= total", "        if total != 1:\n            p /= total")], ("C15",)),
    silent("s2-identifier-early-return",
           [(ID, "    return valid_identifier_regex.match(name) and name not in RESERVED_WORDS", "    if name in RESERVED_WORDS:\n        return False\n    return valid_identifier_regex.match(name)")], ("C01",)),
    silent("s2-exemption-nested-ifs",
           [(FM, "        if isinstance(gate.gate_def, Macro) and isinstance(param, Register):\n            return param", "        if isinstance(gate.gate_def, Macro):\n            if isinstance(param, Register):\n                return param")], ("C10", "C06")),
    silent("s2-context-default-spelled-out",
           [(RG, "        context = context or {}\n        alias_index = self.alias_index", "        if context is None:\n            context = {}\n        alias_index = self.alias_index")], ("C13",)),
    silent("s2-gatedef-eq-early-false",
           [(GD, "            return self.name == other.name and self.parameters == other.parameters", "            if self.name != other.name:\n                return False\n            return self.parameters == other.parameters")], ("C20",)),
    silent("s2-letfiller-children-through-loop",
           [(FL, '        sexpr = [block_type, *[self.visit(stmt) for stmt in block.statements]]\n        return sexpr', '        sexpr = [block_type]\n        for stmt in block.statements:\n            sexpr.append(self.visit(stmt))\n        return sexpr')], ("C05",)),
]

VARIANTS += [
    fire("s2-slice-start-constant",
         [(RG, "                start = alias_slice.start or 0\n", "                start = 0\n")],
         ("*", "Register.__init__:slice-start"), ("C14", "C06")),
    fire("s2-slice-start-and",
         [(RG, "                start = alias_slice.start or 0\n", "                start = alias_slice.start and 0\n")],
         ("*", "Register.__init__:slice-start"), ("C14", "C06")),
    fire("s2-slice-stop-default-polarity",
         [(RG, "                stop = alias_from.size if alias_slice.stop is None else alias_slice.stop", "                stop = alias_from.size if alias_slice.stop is not None else alias_slice.stop")],
         ("*", "Register.__init__:slice-stop"), ("C14", "C06")),
    fire("s2-slice-stop-from-start",
         [(RG, "                stop = alias_from.size if alias_slice.stop is None else alias_slice.stop", "                stop = alias_from.size if alias_slice.stop is None else alias_slice.start")],
         ("*", "Register.__init__:slice-stop"), ("C14", "C06")),
    fire("s2-resolve-size-stop-from-start",
         [(RG, "        stop = self.alias_slice.stop\n", "        stop = self.alias_slice.start\n")],
         ("*", "Register.resolve_size:slice-stop"), ("C14", "C06")),
    fire("s2-resolve-qubit-step-from-start",
         [(RG, "        step = self.alias_slice.step\n        if step is None:\n            step = 1\n\n        def resolve_annotated_value(value):\n            while isinstance(value, AnnotatedValue):\n                value = value.resolve_value(context)\n            return value\n\n        start = resolve_annotated_value(start)\n        step = resolve_annotated_value(step)\n\n        return", "        step = self.alias_slice.start\n        if step is None:\n            step = 1\n\n        def resolve_annotated_value(value):\n            while isinstance(value, AnnotatedValue):\n                value = value.resolve_value(context)\n            return value\n\n        start = resolve_annotated_value(start)\n        step = resolve_annotated_value(step)\n\n        return")],
         ("*", "Register.resolve_qubit:slice-step"), ("C14", "C06")),
    silent("s2-slice-start-ifexp",
           [(RG, "                start = alias_slice.start or 0\n", "                start = 0 if alias_slice.start is None else alias_slice.start\n")], ("C14", "C06")),
]

ST = "src/jaqalpaq/core/stretch.py"
VARIANTS += [
    fire("s2-stretch-idle-flag-false",
         [(ST, "            add_idle = True\n", "            add_idle = False\n")],
         ("C18.10", "stretched_gates:idle-flag"), ("C18",)),
    fire("s2-stretch-idle-twin-negated",
         [(ST, "        if add_idle:\n", "        if not add_idle:\n")],
         ("C18.10", "stretched_gates:idle-twin"), ("C18",)),
    fire("s2-stretch-idle-twin-unnamed",
         [(ST, "            new_gate = IdleGateDefinition(new_gate, name=new_name)", "            new_gate = IdleGateDefinition(new_gate)")],
         ("C18.10", "stretched_gates:idle-twin"), ("C18",)),
]

# strengthenings after seed round 6
CB = "src/jaqalpaq/core/circuitbuilder.py"
VARIANTS += [
    fire("r6-stretch-name-deduplicated-once",
         [(ST, "        while any(param.name == stretch_name for param in parameters):", "        if any(param.name == stretch_name for param in parameters):")],
         ("C18.6", "stretched_gates:appended-parameter-name"), ("C18",)),
    fire("r6-relinker-native-by-equality",
         [(CB, "            if gate_def is gate.gate_def:\n                return False, gate\n            # A statement built on its own", "            if gate_def == gate.gate_def:\n                return False, gate\n            # A statement built on its own")],
         ("C13.8", "RebuildMacroInContextVisitor.visit_GateStatement:unchanged-gate"), ("C13",)),
    fire("r6-parallel-state-conjunction",
         [(WK, "                if before[0] is not self.current or before[1] != len(self.subcircuits):", "                if before[0] is not self.current and before[1] != len(self.subcircuits):")],
         ("C13.11", "DiscoverSubcircuits.visit_BlockStatement:parallel-branches"), ("C13",)),
    fire("r6-discover-zero-loop-early-return",
         [(WK, "    def visit_LoopStatement(self, obj, context=None):\n        return self.visit(obj.statements, context=context, reps=obj.iterations)", "    def visit_LoopStatement(self, obj, context=None):\n        if obj.iterations <= 0:\n            return {}\n        return self.visit(obj.statements, context=context, reps=obj.iterations)")],
         ("*", "DiscoverSubcircuits.visit_LoopStatement:every-path"), ("C08", "C13")),
    fire("r6-inner-constant-declared-value",
         [(FL, "            return self.resolve_constant(const.value)\n", "            return const.value.resolve_value()\n")],
         ("C05.13", "LetFiller.resolve_constant:constant-of-constant"), ("C05",)),
    fire("r6-macro-table-bound-late",
         [(ES, "        self.new_macros = new_circuit.macros\n        for name, macro in circuit.macros.items():\n            new_circuit.macros[name] = self.visit(macro)\n", "        new_circuit.macros.update(\n            (name, self.visit(macro)) for name, macro in circuit.macros.items()\n        )\n        self.new_macros = new_circuit.macros\n")],
         ("C09.12", "SubcircuitExpander.visit_Circuit:macro-table"), ("C09",)),
    fire("r6-gate-eq-through-float",
         [(GT, "            if isinstance(p0, float) and math.isnan(p0):\n                return isinstance(p1, float) and math.isnan(p1)\n            return p0 == p1", "            if isinstance(p0, (int, float)) and isinstance(p1, (int, float)):\n                p0, p1 = float(p0), float(p1)\n                if math.isnan(p0):\n                    return math.isnan(p1)\n            return p0 == p1")],
         ("C20.10", "GateStatement:__eq__:coercion"), ("C20",)),
    silent("r6-macro-table-filled-through-update",
           [(ES, "        for name, macro in circuit.macros.items():\n            new_circuit.macros[name] = self.visit(macro)\n", "        new_circuit.macros.update(\n            (name, self.visit(macro)) for name, macro in circuit.macros.items()\n        )\n")],
           ("C09",)),
]
