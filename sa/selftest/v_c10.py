"""Variants for C10."""
from .v_c04 import fire, silent

PA = "src/jaqalpaq/parser/parser.py"
FM = "src/jaqalpaq/core/algorithm/fill_in_map.py"
EM = "src/jaqalpaq/core/algorithm/expand_macros.py"
P = ("C10",)
ES = "src/jaqalpaq/core/algorithm/expand_subcircuits.py"

VARIANTS = [
    fire("c10-expand-let-flag-ignored",
         [(PA, "    if expand_let_map or expand_let:\n        circuit = fill_in_let(circuit, override_dict=override_dict)\n", "    if expand_let_map:\n        circuit = fill_in_let(circuit, override_dict=override_dict)\n")],
         ("C10.1", "flag:fill_in_let"), P),
    fire("c10-override-not-forwarded",
         [(PA, "    if expand_let_map or expand_let:\n        circuit = fill_in_let(circuit, override_dict=override_dict)\n", "    if expand_let_map or expand_let:\n        circuit = fill_in_let(circuit)\n")],
         ("C10.1", "flag:fill_in_let"), P),
    fire("c10-map-before-let",
         [(PA, "    if expand_let_map or expand_let:\n        circuit = fill_in_let(circuit, override_dict=override_dict)\n", ""), (PA, "    if expand_let_map:\n        circuit = fill_in_map(circuit)\n", "    if expand_let_map:\n        circuit = fill_in_map(circuit)\n    if expand_let_map or expand_let:\n        circuit = fill_in_let(circuit, override_dict=override_dict)\n")],
         ("C10.1", "order:let-before-map"), P),
    fire("c10-macros-always-expanded",
         [(PA, "    if expand_macro:\n        # preserve_definitions maintains old API behavior\n        circuit = expand_macros(circuit, preserve_definitions=True)\n", "    circuit = expand_macros(circuit, preserve_definitions=True)\n")],
         ("C10.1", "flag:expand_macros"), P),
    fire("c10-result-discarded",
         [(PA, "    if expand_let_map:\n        circuit = fill_in_map(circuit)\n", "    if expand_let_map:\n        fill_in_map(circuit)\n")],
         ("C10.1", "flag:fill_in_map"), P),
    fire("c10-map-under-expand-let",
         [(PA, "    if expand_let_map:\n        circuit = fill_in_map(circuit)\n", "    if expand_let_map or expand_let:\n        circuit = fill_in_map(circuit)\n")],
         ("C10.1", "order:let-before-map"), P),
    fire("c10-replacer-no-splice",
         [(EM, "        new_statements = []\n        for stmt in block.statements:\n            new_stmt = self.visit(stmt)\n            if (\n                isinstance(new_stmt, BlockStatement)\n                and new_stmt.parallel == block.parallel\n                and not new_stmt.subcircuit\n            ):\n                new_statements.extend(new_stmt.statements)\n            else:\n                new_statements.append(new_stmt)\n",
           "        new_statements = [self.visit(stmt) for stmt in block.statements]\n", 1)],
         ("C10.2", "GateReplacer:visit_BlockStatement:splice"), P),
    fire("c10-mapfiller-loop-count-lost",
         [(FM, '        sexpr = ["loop", self.visit(loop.iterations), self.visit(loop.statements)]', '        sexpr = ["loop", 1, self.visit(loop.statements)]')],
         ("C10.4", "LoopStatement.iterations"), P),
    fire("c10-mapfiller-macros-not-visited",
         [(FM, "        macros = [self.visit(macro) for macro in circuit.macros.values()]", "        macros = list(circuit.macros.values())")],
         ("C10.3", "Circuit.macros:visited"), P),
    fire("c10-mapfiller-registers-dropped",
         [(FM, "            *circuit.registers.values(),\n", "")],
         ("C10.4", "Circuit.registers"), P),
    silent("c10-flags-early-return",
           [(PA, "    if expand_let_map or expand_let:\n        circuit = fill_in_let(circuit, override_dict=override_dict)\n", "    if expand_let_map:\n        circuit = fill_in_let(circuit, override_dict=override_dict)\n    elif expand_let:\n        circuit = fill_in_let(circuit, override_dict=override_dict)\n")], P),
    # the open finding C10.5 repaired: the replacement block is spliced -> no report at all
    silent("c10-subcircuit-replacement-spliced",
           [(ES, "        statements = [self.visit(stmt) for stmt in block.statements]\n        return BlockStatement(parallel=block.parallel, statements=statements)",
             "        statements = []\n        for stmt in block.statements:\n            new_stmt = self.visit(stmt)\n            if isinstance(stmt, BlockStatement) and stmt.subcircuit and not block.parallel:\n                statements.extend(new_stmt.statements)\n            else:\n                statements.append(new_stmt)\n        return BlockStatement(parallel=block.parallel, statements=statements)")], P),
    # the same defect in another construct is not covered by the known-finding entry
    fire("c10-subcircuit-rebuild-inlined",
         [(ES, "            return self.process_non_subcircuit_block(block)", "            return BlockStatement(parallel=block.parallel, statements=[self.visit(stmt) for stmt in block.statements])")],
         ("C10.5", "visit_BlockStatement:nested-plain-block"), P),
]

VARIANTS += [
    # reverting part of fix ca227b4
    fire("c10-override-ignored-without-flag",
         [(PA, "        if not (expand_let or expand_let_map):\n            raise JaqalError(\n                \"override_dict only takes effect with expand_let or expand_let_map\"\n            )\n", "")],
         ("C10.1", "parse_jaqal_string:override-never-ignored"), P),
]
VARIANTS += [
    # reverting fix 1e6ba31 (macros before lets)
    fire("c10-macros-before-lets",
         [(PA, "    if expand_let_map or expand_let:\n        circuit = fill_in_let(circuit, override_dict=override_dict)\n", ""),
          (PA, "        circuit = expand_macros(circuit, preserve_definitions=True)\n", "        circuit = expand_macros(circuit, preserve_definitions=True)\n    if expand_let_map or expand_let:\n        circuit = fill_in_let(circuit, override_dict=override_dict)\n")],
         ("C10.1", "order:let-before-map"), P),
]
VARIANTS += [
    # reverting the macro-call exemption
    fire("c10-mapfiller-refuses-alias-argument-of-macro-call",
         [(FM, "        if isinstance(gate.gate_def, Macro) and isinstance(param, Register):\n            return param\n", "")],
         ("C10.13", "MapFiller.visit_GateStatement:macro-call-arguments-exempt"), P),
]
