"""Variants for the narrow C12 claim (the guards of subcircuit discovery)."""
from .v_c04 import fire, silent

WK = "src/jaqalpaq/core/algorithm/walkers.py"
P = ("C12",)

VARIANTS = [
    fire("c12-gate-outside-accepted",
         [(WK, "        else:\n            if self.current is None:\n                raise JaqalError(f\"gates must follow a {self.p_gate}\")\n", "")],
         ("C12.5", "gate-outside"), P),
    fire("c12-gate-outside-polarity",
         [(WK, "        else:\n            if self.current is None:\n                raise JaqalError(f\"gates must follow", "        else:\n            if self.current is not None:\n                raise JaqalError(f\"gates must follow")],
         ("C12.5", "gate-outside"), P),
    fire("c12-measure-without-prepare-accepted",
         [(WK, "            if self.current is None:\n                raise JaqalError(f\"{self.p_gate} must follow a {self.m_gate}\")\n", "")],
         ("C12.3", "measure-needs-open-trace"), P),
    fire("c12-measure-branch-negated",
         [(WK, "        elif gate.name == self.m_gate:", "        elif not (gate.name == self.m_gate):")],
         ("C12.1", "open-close"), P),
    fire("c12-trace-not-recorded",
         [(WK, "            self.subcircuits.append(self.current)\n", "            pass\n")],
         ("C12.2", "records-trace"), P),
    fire("c12-wraparound-any-completed-trace",
         [(WK, "        if had_started and (reps != 1) and (open_at_entry.end is not None):", "        if had_started and (reps != 1) and (len(self.subcircuits) != count):")],
         ("C12.4", "wrap-around"), P),
    fire("c12-loop-refusal-only-for-repeats",
         [(WK, "        if had_started and (reps != 1) and (open_at_entry.end is not None):", "        if had_started and (reps == 1) and (open_at_entry.end is not None):")],
         ("C12.2", "loop-body-refusals"), P),
    fire("c12-open-loop-trace-accepted",
         [(WK, "        if (\n            (reps != 1)\n            and (self.current is not None)\n            and (self.current is not open_at_entry)\n        ):\n            # The body is not executed exactly once, so a subcircuit that\n            # starts in it must also be measured in it.\n            raise JaqalError(\n                \"prepare_all in a loop must be followed by measure_all in the same loop\"\n            )\n", "")],
         ("C12.3", "both-refusals"), P),
    fire("c12-trailing-trace-kept",
         [(WK, "        if subcircuits[-1].end is None:", "        if subcircuits[-1].end is not None:")],
         ("C12.3", "open-trace-dropped"), P),
    fire("c12-empty-result-when-there-are-traces",
         [(WK, "        if len(subcircuits) == 0:\n            return ()", "        if len(subcircuits) != 0:\n            return ()")],
         ("C12.6", "empty-result"), P),
    silent("c12-gate-outside-early-dispatch",
           [(WK, "        else:\n            if self.current is None:\n                raise JaqalError(f\"gates must follow a {self.p_gate}\")\n", "        elif self.current is None:\n            raise JaqalError(f\"gates must follow a {self.p_gate}\")\n")], P),
]

VARIANTS += [
    # reverting the repair of the regression found by the C12 hunt
    fire("c12-superseded-after-gates-accepted",
         [(WK, "        if (\n            had_started\n            and (reps != 1)\n            and (self.current is not open_at_entry)\n            and (open_at_entry.gates != gates_at_entry)\n        ):\n            # The subcircuit that was open at entry is superseded in the\n            # body after gates of the body went into it: from the second\n            # pass on those gates follow a measure_all.\n            raise JaqalError(\n                \"gates before a prepare_all in a loop must follow a prepare_all in the same loop\"\n            )\n", "")],
         ("*", "superseded-after-gates"), ("C12", "C08")),
    fire("c12-gates-not-counted",
         [(WK, "            self.current.gates += 1\n", "")],
         ("*", "superseded-after-gates"), ("C12", "C08")),
    fire("c12-last-trace-dropped-when-prepare-open",
         [(WK, "        if subcircuits[-1].end is None:", "        if self.current is not None:")],
         ("*", "last-trace-left-out"), ("C12", "C08")),
    fire("c12-prepare-reuses-open-trace",
         [(WK, "            c = self.current = Trace(self.address[:])", "            if self.current is None:\n                self.current = Trace(self.address[:])\n            else:\n                self.current.start = self.address[:]")],
         ("*", "new-trace"), ("C12", "C08")),
]
