"""Self-test of the checkers on in-memory source variants (DESIGN section 7).

A variant is a list of exact-once text replacements applied to the current
source map.  'fire' variants break one instance and must produce a violation
matching ``expect`` that the unmodified tree does not have; 'silent' variants
are behaviour-preserving rewrites and must not add any violation.  A variant
whose anchor text is no longer present is *skipped* (reported, not failed).
"""

from __future__ import annotations

import importlib
import os
import pkgutil
from concurrent.futures import ProcessPoolExecutor
from typing import Dict, List

from ..index import load_sources


def _collect(pid: str) -> List[dict]:
    out = []
    pkg = importlib.import_module("sa.selftest")
    for m in pkgutil.iter_modules(pkg.__path__):
        if not m.name.startswith("v_"):
            continue
        mod = importlib.import_module(f"sa.selftest.{m.name}")
        for v in getattr(mod, "VARIANTS", []):
            if pid in v["properties"]:
                out.append(v)
    return out


def apply_edits(sources: Dict[str, str], edits) -> Dict[str, str] | None:
    src = dict(sources)
    for ed in edits:
        path, old, new = ed[:3]
        occ = ed[3] if len(ed) > 3 else None
        if path not in src:
            return None
        if old == "" and new:
            src[path] = src[path] + new
            continue
        text = src[path]
        n = text.count(old)
        if occ is None:
            if n != 1:
                return None
            src[path] = text.replace(old, new)
        else:
            if n <= occ:
                return None
            pos = -1
            for _ in range(occ + 1):
                pos = text.index(old, pos + 1)
            src[path] = text[:pos] + new + text[pos + len(old):]
    return src


def _violations(pid, sources):
    from ..check import Ctx, run_property

    ctx = Ctx(sources=sources)
    rep = run_property(pid, ctx, "quick")
    return sorted({(v.rule, v.construct) for v in rep.violations()})


def _run_one(args):
    pid, variant, base = args
    try:
        sources = load_sources()
        src = apply_edits(sources, variant["edits"])
        if src is None:
            return variant["name"], "skipped", "anchor text not found"
        got = _violations(pid, src)
        new = [g for g in got if list(g) not in base and tuple(g) not in [tuple(b) for b in base]]
        if variant["kind"] == "fire":
            rule, sub = variant["expect"]
            hit = [g for g in new if (g[0] == rule or (rule.startswith('*') and g[0].split('.')[1:] != [] and True)) and sub in g[1]]
            if hit:
                return variant["name"], "ok", f"fired {hit[0]}"
            return variant["name"], "FAILED", f"expected {rule} ~{sub}; new violations: {new}"
        else:
            if new:
                return variant["name"], "FAILED", f"silent variant raised {new}"
            return variant["name"], "ok", "silent"
    except Exception as ex:  # analysis error inside a variant
        import traceback

        return variant["name"], "FAILED", f"exception {ex!r}: {traceback.format_exc(limit=3)}"


def run_selftests(pid: str, jobs: int = 16) -> dict:
    variants = _collect(pid)
    if not variants:
        return {"variants": 0, "fired": "0/0", "silent": "0/0", "failed": [], "skipped": []}
    base = _violations(pid, load_sources())
    work = [(pid, v, base) for v in variants]
    with ProcessPoolExecutor(max_workers=min(jobs, len(work))) as ex:
        results = list(ex.map(_run_one, work))
    kinds = {v["name"]: v["kind"] for v in variants}
    fired = [r for r in results if kinds[r[0]] == "fire"]
    silent = [r for r in results if kinds[r[0]] == "silent"]
    return {
        "variants": len(variants),
        "fired": f"{sum(1 for r in fired if r[1] == 'ok')}/{len(fired)}",
        "silent": f"{sum(1 for r in silent if r[1] == 'ok')}/{len(silent)}",
        "failed": [f"{r[0]}: {r[2]}" for r in results if r[1] == "FAILED"],
        "skipped": [r[0] for r in results if r[1] == "skipped"],
        "results": [list(r) for r in results],
    }


def main():
    import sys

    pids = sys.argv[1:]
    if not pids:
        from ..props import PROPS

        pids = sorted(PROPS)
    bad = 0
    for pid in pids:
        st = run_selftests(pid.upper())
        print(pid, "variants", st["variants"], "fired", st["fired"], "silent", st["silent"], "skipped", st["skipped"])
        for f in st["failed"]:
            bad += 1
            print("  FAILED", f)
    return 2 if bad else 0


if __name__ == "__main__":
    raise SystemExit(main())
