"""Variants for the clauses of seed round 10 / the seventh hunt wave (sa/rules/round10.py and the
extensions of C17.3, C10.1, C13.25, C10.16 made with it).  The seeds themselves are variants too (v_seeds.py);
these are the silent twins and a few reduced forms."""
from .v_c04 import fire, silent

FM = "src/jaqalpaq/core/algorithm/fill_in_map.py"
CB = "src/jaqalpaq/core/circuitbuilder.py"
EM = "src/jaqalpaq/core/algorithm/expand_macros.py"
GE = "src/jaqalpaq/generator/generator.py"
PA = "src/jaqalpaq/parser/parser.py"

_SLICE = ("        if alias_slice is not None and any(\n            isinstance(bound, AnnotatedValue)\n            for bound in (alias_slice.start, alias_slice.stop, alias_slice.step)\n        ):\n            return True\n")

VARIANTS = [
    # ---- process-wide objects
    fire("r10-gate-memo-shared-by-every-builder",
         [(CB, "        self.gate_memo = GateMemoizer()\n", "        self.gate_memo = _SHARED_MEMO\n"),
          (CB, "def as_integer(value):", "_SHARED_MEMO = GateMemoizer()\n\n\ndef as_integer(value):")],
         ("*", "process-wide:_SHARED_MEMO"), ("C07", "C16")),
    fire("r10-module-level-dict-as-memo",
         [(CB, "        self.subcircuit_memo = {}\n", "        self.subcircuit_memo = _SUB_MEMO\n"),
          (CB, "def as_integer(value):", "_SUB_MEMO = {}\n\n\ndef as_integer(value):")],
         ("*", "process-wide:_SUB_MEMO"), ("C16",)),
    silent("r10-gate-memo-through-a-local",
           [(CB, "        self.gate_memo = GateMemoizer()\n", "        memo = GateMemoizer()\n        self.gate_memo = memo\n")],
           ("C07", "C16")),
    silent("r10-module-level-table-read-only",
           [(CB, "def as_integer(value):", "_KIND_NAMES = {\"int\": 1, \"float\": 2}\n\n\ndef as_integer(value):\n    _KIND_NAMES.get(\"int\")")],
           ("C07", "C16")),
    # ---- bindings of a replacer
    fire("r10-nested-call-adds-to-the-callers-bindings",
         [(EM, "def replace_gate(gate, macros):", "def replace_gate(gate, macros, replacer=None):"),
          (EM, "        visitor = GateReplacer(arguments, macros)\n        return visitor.visit(macro)\n",
           "        if replacer is None:\n            replacer = GateReplacer(arguments, macros)\n        else:\n            replacer.arguments.update(arguments)\n        return replacer.visit(macro)\n"),
          (EM, "        return replace_gate(new_gate, self.macros)\n", "        return replace_gate(new_gate, self.macros, replacer=self)\n")],
         ("*", "GateReplacer.__init__:bindings:arguments"), ("C04", "C03")),
    fire("r10-replacer-rebinds-itself",
         [(EM, "        return replace_gate(new_gate, self.macros)\n", "        self.arguments = dict(self.arguments)\n        return replace_gate(new_gate, self.macros)\n")],
         ("*", "GateReplacer.__init__:bindings:arguments"), ("C04",)),
    silent("r10-fresh-replacer-filled-after-construction",
           [(EM, "        visitor = GateReplacer(arguments, macros)\n", "        visitor = GateReplacer({}, macros)\n        visitor.arguments.update(arguments)\n")],
           ("C03",)),
    # ---- walk along the alias chain
    fire("r10-chain-walk-answers-at-the-first-slice",
         [(FM, _SLICE, "        if alias_slice is not None:\n            return any(\n                isinstance(bound, AnnotatedValue)\n                for bound in (alias_slice.start, alias_slice.stop, alias_slice.step)\n            )\n")],
         ("*", "_depends_on_parameter:chain-walk-complete"), ("C06", "C10")),
    fire("r10-chain-walk-gives-up-at-a-fundamental-looking-link",
         [(FM, _SLICE, _SLICE + "        if alias_slice is None:\n            return False\n")],
         ("*", "_depends_on_parameter:chain-walk-complete"), ("C06",)),
    silent("r10-chain-walk-nested-ifs",
           [(FM, _SLICE, "        if alias_slice is not None:\n            if any(\n                isinstance(bound, AnnotatedValue)\n                for bound in (alias_slice.start, alias_slice.stop, alias_slice.step)\n            ):\n                return True\n")],
           ("C06", "C10")),
    # ---- parser flags: aliases after macros
    fire("r10-alias-fill-in-before-macro-expansion",
         [(PA, "    if expand_let_map or expand_let:\n        circuit = fill_in_let(circuit, override_dict=override_dict)\n", "    if expand_let_map or expand_let:\n        circuit = fill_in_let(circuit, override_dict=override_dict)\n        if expand_let_map:\n            circuit = fill_in_map(circuit)\n"),
          (PA, "    if expand_let_map:\n        circuit = fill_in_map(circuit)\n\n    if sum(", "    if sum(")],
         ("C10.1", "parse_jaqal_string:order"), ("C10",)),
    # ---- the generator decides on a count by its value
    fire("r10-generator-int-of-count",
         [(GE, "        if statement.iterations != 1:\n", "        if int(statement.iterations) != 1:\n")],
         ("C01.19", "generate_jaqal_block:coercion"), ("C01",)),
    silent("r10-generator-int-of-plain-count",
           [(GE, "        if statement.iterations != 1:\n", "        if not (isinstance(statement.iterations, int) and int(statement.iterations) == 1):\n")],
           ("C01",)),
    # ---- a handler that returns without handing its children on
    fire("r10-replacer-drops-zero-count-loop",
         [(EM, "    def visit_LoopStatement(self, loop: LoopStatement):\n        return LoopStatement(\n", "    def visit_LoopStatement(self, loop: LoopStatement):\n        count = self.substitute_count(loop.iterations)\n        if count == 0:\n            return BlockStatement()\n        return LoopStatement(\n")],
         ("*", "GateReplacer.visit_LoopStatement:every-path"), ("C04", "C12", "C10")),
    # ---- type(node)(...) is a construction of the node's class
    fire("r10-relinker-type-of-block-without-count",
         [(CB, "            return changed, BlockStatement(\n                parallel=block.parallel,\n                subcircuit=block.subcircuit,\n                iterations=block.iterations,\n", "            return changed, type(block)(\n                parallel=block.parallel,\n                subcircuit=block.subcircuit,\n")],
         ("*", "RebuildMacroInContextVisitor.visit_BlockStatement"), ("C13", "C17", "C07")),
    silent("r10-relinker-type-of-block-complete",
           [(CB, "            return changed, BlockStatement(\n                parallel=block.parallel,", "            return changed, type(block)(\n                parallel=block.parallel,")],
           ("C13", "C17", "C07", "C11")),
]

RS = "src/jaqalpaq/core/result.py"
_RANGE = ("        outcomes = 2 ** len(subcircuit.measured_qubits)\n        if not 0 <= nxt < outcomes:\n")

VARIANTS += [
    # ---- outcomes are range-checked (repo fix 3f7652f)
    fire("r10-outcome-range-check-reverted",
         [(RS, _RANGE + "            # (a negative index would silently be counted in another bin)\n            raise JaqalError(\n                f\"Measurement outcome {nxt} is not in the range 0..{outcomes - 1}\"\n            )\n", "")],
         ("*", "OutputParser.process_trace:outcome-range"), ("C15", "C16")),
    fire("r10-outcome-upper-bound-only",
         [(RS, _RANGE, "        outcomes = 2 ** len(subcircuit.measured_qubits)\n        if nxt >= outcomes:\n")],
         ("*", "OutputParser.process_trace:outcome-range"), ("C15", "C16")),
    silent("r10-outcome-range-as-two-tests",
           [(RS, _RANGE, "        outcomes = 2 ** len(subcircuit.measured_qubits)\n        if nxt < 0 or nxt >= outcomes:\n")],
           ("C15", "C16")),
    silent("r10-outcome-range-by-membership",
           [(RS, _RANGE, "        outcomes = 2 ** len(subcircuit.measured_qubits)\n        if nxt not in range(outcomes):\n")],
           ("C15", "C16")),
]

VARIANTS += [
    # ---- bool in the value writer (repo fix)
    fire("r10-value-writer-bool-reverted",
         [(GE, "    if isinstance(val, bool) or not isinstance(val, (int, float)):", "    if not isinstance(val, (int, float)):")],
         ("*", "generate_jaqal_value:bool-before-str"), ("C01", "C20")),
    silent("r10-value-writer-bool-refused",
           [(GE, "    if isinstance(val, bool) or not isinstance(val, (int, float)):", "    if isinstance(val, bool):\n        val = int(val)\n    if not isinstance(val, (int, float)):")],
           ("C01", "C20")),
]

RES = "src/jaqalpaq/core/result.py"
CO = "src/jaqalpaq/core/constant.py"
BK = "src/jaqalpaq/emulator/backend.py"
IM = "src/jaqalpaq/_import.py"

VARIANTS += [
    # ---- seed round 11: passes before discovery are unconditional
    silent("r11-output-parser-passes-one-by-one",
           [(RES, "    circuit = expand_macros(fill_in_let(expand_subcircuits(circuit)))\n", "    circuit = expand_subcircuits(circuit)\n    circuit = fill_in_let(circuit)\n    circuit = expand_macros(circuit)\n")],
           ("C09",)),
    fire("r11-output-parser-macros-only-if-any",
         [(RES, "    circuit = expand_macros(fill_in_let(expand_subcircuits(circuit)))\n", "    circuit = fill_in_let(expand_subcircuits(circuit))\n    if circuit.macros:\n        circuit = expand_macros(circuit)\n")],
         ("C09.4", "parse_jaqal_output_list:unconditional:expand_macros"), ("C09",)),
    # ---- protocol methods are read-only
    fire("r11-constant-float-caches",
         [(CO, "    def __float__(self):\n        \"\"\"Resolve this value converted to a float.\"\"\"\n", "    def __float__(self):\n        \"\"\"Resolve this value converted to a float.\"\"\"\n        self._cached = True\n")],
         ("C11.2", "Constant.__float__:writes-to-self"), ("C11",)),
    # ---- one result per trace
    silent("r11-backend-results-by-append",
           [(BK, "        job.subcircuits = [self._make_subcircuit(job, *tr) for tr in enumerate(traces)]\n", "        job.subcircuits = []\n        for n, tr in enumerate(traces):\n            job.subcircuits.append(self._make_subcircuit(job, n, tr))\n")],
           ("C08", "C15")),
    # ---- the rollback flag
    silent("r11-rollback-flag-after-eviction-renamed",
           [(IM, "    fresh = module is None\n    if module is None:\n", "    fresh = (module is None)\n    if module is None:\n")],
           ("C16",)),
]

VARIANTS += [
    silent("r10-import-time-registry",
           [(CB, "def as_integer(value):", "_REGISTRY = []\n\n\ndef registered(fn):\n    _REGISTRY.append(fn)\n    return fn\n\n\n@registered\ndef as_integer(value):")],
           ("C07", "C16")),
]

VARIANTS += [
    # ---- hunt wave 8: the memo keys every numeric type (repo fix b00fc24)
    fire("r12-memo-key-builtin-numbers-only",
         [(CB, "        elif isinstance(obj, Number):\n", "        elif isinstance(obj, (int, float)):\n")],
         ("*", "GateMemoizer:memo-key:numeric-types"), ("C07", "C18", "C01")),
    silent("r12-memo-key-real-and-complex",
           [(CB, "        elif isinstance(obj, Number):\n", "        elif isinstance(obj, (Real, Complex)):\n")],
           ("C07", "C18")),
]

VARIANTS += [
    # ---- hunt wave 8: nesting of the assembled program (repo fix)
    fire("r12-assembled-nesting-not-checked",
         [(CB, "        for macro in macros.values():\n            check_subcircuit_nesting(macro.body, self.subcircuit_memo)\n        for stmt in statements:\n            check_subcircuit_nesting(stmt, self.subcircuit_memo)\n", "")],
         ("*", "Builder.build_circuit:assembled-nesting"), ("C17", "C14")),
    fire("r12-assembled-nesting-statements-only",
         [(CB, "        for macro in macros.values():\n            check_subcircuit_nesting(macro.body, self.subcircuit_memo)\n", "")],
         ("*", "Builder.build_circuit:assembled-nesting:macros"), ("C17",)),
]

VARIANTS += [
    fire("r12-expander-normaliser-float-only",
         [(EM, "    if isinstance(value, bool):\n        return int(value)\n    if isinstance(value, float) and float(value) == int(value):", "    if isinstance(value, float) and float(value) == int(value):")],
         ("C04.17", "filter_float:bool"), ("C04",)),
]

_FMT = ("        text = str(val)\n        if \"e\" in text and \".\" not in text:\n            # A Jaqal number needs a decimal point, which Python omits\n            # from some values in exponent form: 1e-06 -> 1.0e-06\n            text = text.replace(\"e\", \".0e\")\n        return text\n")

VARIANTS += [
    # ---- seed round 12: the partition idiom of the value writer
    silent("r13-value-writer-partition-any-bare-mantissa",
           [(GE, _FMT, "        mantissa, exp, exponent = str(val).partition(\"e\")\n        if exp and \".\" not in mantissa:\n            mantissa += \".0\"\n        return mantissa + exp + exponent\n")],
           ("C01", "C20")),
    fire("r13-value-writer-partition-unsigned-only",
         [(GE, _FMT, "        mantissa, exp, exponent = str(val).partition(\"e\")\n        if exp and mantissa.isdigit():\n            mantissa += \".0\"\n        return mantissa + exp + exponent\n")],
         ("C01.1", "generate_jaqal_value:number-format:float"), ("C01",)),
    # ---- the chain walk is not left by `break` either
    fire("r13-chain-walk-breaks-at-a-whole-register-alias",
         [(FM, _SLICE, "        if alias_slice is None and isinstance(obj, Register):\n            break\n" + _SLICE)],
         ("*", "_depends_on_parameter:chain-walk-complete"), ("C06", "C10")),
    silent("r13-chain-walk-breaks-at-the-fundamental-register",
           [(FM, _SLICE, "        if getattr(obj, \"fundamental\", False):\n            break\n" + _SLICE)],
           ("C06", "C10")),
]

UNI = "src/jaqalpaq/emulator/unitary.py"

VARIANTS += [
    # ---- hunt wave 8 (C16): allocation of the state vector (repo fix)
    fire("r12-state-vector-allocation-unguarded",
         [(UNI, "        try:\n            inp = numpy.empty(hilb_dim, dtype=complex)\n            vec = numpy.zeros(hilb_dim, dtype=complex)\n        except (ValueError, MemoryError, OverflowError) as exc:\n            raise JaqalError(\n                f\"Cannot emulate {n_qubits} qubits: the state vector does not fit in memory\"\n            ) from exc\n",
           "        inp = numpy.empty(hilb_dim, dtype=complex)\n        vec = numpy.zeros(hilb_dim, dtype=complex)\n")],
         ("C16.37", "_make_subcircuit:state-vector-allocation"), ("C16",)),
    fire("r12-state-vector-allocation-memoryerror-only",
         [(UNI, "        except (ValueError, MemoryError, OverflowError) as exc:\n", "        except MemoryError as exc:\n")],
         ("C16.37", "_make_subcircuit:state-vector-allocation"), ("C16",)),
]

_CACHE = ("            touched = 0\n            for i_k in qind:\n                touched |= 1 << i_k\n            try:\n                col_offsets = offsets[touched]\n            except KeyError:\n                col_offsets = []\n                for j_k in qind:\n                    col_offsets.append(1 << j_k)\n                offsets[touched] = col_offsets\n")

VARIANTS += [
    # ---- C03.16 (expected count zero on the pinned tree: this is the positive control)
    fire("r13-emulator-cache-keyed-by-bitmask",
         [(UNI, "        vec[0] = 1\n", "        vec[0] = 1\n        offsets = {}\n"),
          (UNI, "            vec[:] = 0\n", "            vec[:] = 0\n" + _CACHE)],
         ("C03.16", "_make_subcircuit:cache:offsets"), ("C03",)),
    silent("r13-emulator-cache-keyed-by-the-ordered-operands",
           [(UNI, "        vec[0] = 1\n", "        vec[0] = 1\n        offsets = {}\n"),
            (UNI, "            vec[:] = 0\n", "            vec[:] = 0\n" + _CACHE.replace("            touched = 0\n            for i_k in qind:\n                touched |= 1 << i_k\n", "            touched = tuple(qind)\n"))],
           ("C03",)),
]
