"""Variants for the polarity / strictness clauses derived from the mutation sweep."""
from .v_c04 import fire, silent

UT = "src/jaqalpaq/core/algorithm/unit_timing.py"
WK = "src/jaqalpaq/core/algorithm/walkers.py"
RG = "src/jaqalpaq/core/register.py"
EM = "src/jaqalpaq/core/algorithm/expand_macros.py"
UN = "src/jaqalpaq/emulator/unitary.py"
GD = "src/jaqalpaq/core/gatedef.py"
UQ = "src/jaqalpaq/core/algorithm/used_qubit_visitor.py"
RS = "src/jaqalpaq/core/result.py"

VARIANTS = [
    fire("sw-unroll-keep-whole-conjunction",
         [(UT, "        if obj.parallel or obj.subcircuit:\n            # This is ok in iter_unroll_blocks", "        if obj.parallel and obj.subcircuit:\n            # This is ok in iter_unroll_blocks")],
         ("C19.5", "UnrollIterator.visit_BlockStatement:keep-whole-by-kind"), ("C19",)),
    fire("sw-zero-trip-test-catches-count-one",
         [(WK, "        if loop.iterations <= 0:\n", "        if loop.iterations <= 1:\n")],
         ("*", "TraceVisitor.visit_LoopStatement:zero-trip"), ("C08", "C16")),
    fire("sw-serializer-started-polarity",
         [(WK, "        if self.started:\n            for n in range(loop.iterations):", "        if not self.started:\n            for n in range(loop.iterations):")],
         ("C03.5", "TraceSerializer.visit_LoopStatement:body-count"), ("C03",)),
    fire("sw-unitary-skip-polarity",
         [(UN, "            if gatedef.ideal_unitary is None:\n", "            if gatedef.ideal_unitary is not None:\n")],
         ("C03.4", "no-unitary-skipped"), ("C03",)),
    fire("sw-state-vector-not-reported",
         [(UN, "            trace, index, probabilities=probs, state_vector=vec\n", "            trace, index, probabilities=probs\n")],
         ("C03.3", "reported-state"), ("C03",)),
    fire("sw-walk-completion-test-negated",
         [(WK, "                if self.index == len(self.traces):\n                    # We've found all the traces.", "                if self.index != len(self.traces):\n                    # We've found all the traces.")],
         ("C08.3", "completion-test"), ("C08",)),
    fire("sw-index-bounds-conjunction",
         [(RG, "        if idx < 0 or (size is not None and idx >= int(size)):", "        if idx < 0 and (size is not None and idx >= int(size)):")],
         ("C14.1", "Register.resolve_qubit:bounds-alternatives"), ("C14",)),
    fire("sw-index-upper-bound-dropped",
         [(RG, "        if idx < 0 or (size is not None and idx >= int(size)):", "        if idx < 0:")],
         ("C14.1", "Register.resolve_qubit:bounds-alternatives"), ("C14",)),
    fire("sw-filter-float-truncates",
         [(EM, "    if isinstance(value, float) and float(value) == int(value):\n        return int(value)", "    if isinstance(value, float):\n        return int(value)")],
         ("C10.8", "filter_float:coercion"), ("C10",)),
    fire("sw-call-keyword-branch-takes-mixed",
         [(GD, "        elif kwargs and not args:\n", "        elif kwargs:\n")],
         ("C18.1", "AbstractGate.call:branch-selection"), ("C18",)),
    silent("sw-call-mixing-test-reordered",
           [(GD, "        elif kwargs and args:\n", "        elif args and kwargs:\n")], ("C18", "C01")),
    fire("sw-all-qubits-accessor-polarity",
         [(UQ, "        if self.all_qubits is None:\n", "        if self.all_qubits is not None:\n")],
         ("*", "all-marker"), ("C13",)),
    fire("sw-merge-into-visitor-state",
         [(UQ, "            self.merge_into(indices, self._all_qubits())\n        return indices\n", "            self.merge_into(self._all_qubits(), indices)\n        return indices\n")],
         ("C13.1", "visit_BlockStatement:merge-target"), ("C13",)),
    fire("sw-caller-scope-dropped",
         [(UQ, "            context = context or {}\n", "            context = {}\n")],
         ("C13.6", "caller-scope-kept"), ("C13",)),
    fire("sw-zero-counts-polarity-not-form",
         [(RS, "        if relative_frequencies is None:\n            self._relative_frequencies = numpy.zeros", "        if not (relative_frequencies is None):\n            self._relative_frequencies = numpy.zeros")],
         ("C15.8", "zero-counts-when-none-given"), ("C15",)),
]

GEN = "src/jaqalpaq/generator/generator.py"
FM = "src/jaqalpaq/core/algorithm/fill_in_map.py"
FL = "src/jaqalpaq/core/algorithm/fill_in_let.py"
SLY = "src/jaqalpaq/parser/slyparse.py"
PA = "src/jaqalpaq/core/parameter.py"
VARIANTS += [
    # round 5 (regressions of recent repairs)
    fire("r5-open-bound-by-truthiness",
         [(GEN, '    stop = "" if s.stop is None else generate_jaqal_value(s.stop)', '    stop = generate_jaqal_value(s.stop) if s.stop else ""')],
         ("C01.7", "notate_slice:truthiness:s.stop"), ("C01",)),
    fire("r5-emulator-cache-on-qubits",
         [(UN, "\nclass EmulatorSubcircuit(", "\nfrom functools import lru_cache\n\n\n@lru_cache(maxsize=None)\ndef _qubit_index(qubit):\n    return qubit.resolve_qubit()[1]\n\n\nclass EmulatorSubcircuit(")],
         ("*", "_qubit_index:cache-keyed-on-objects"), ("C03", "C16")),
    fire("r5-shadow-test-on-direct-source",
         [(FM, "        if reg.name in self.shadowed:\n", "        if qubit.alias_from.name in self.shadowed:\n")],
         ("*", "MapFiller.visit_NamedQubit:shadowed-register-name"), ("C06", "C10")),
    fire("r5-zero-trip-misses-negative-counts",
         [(WK, "        if loop.iterations <= 0:\n", "        if not loop.iterations:\n")],
         ("*", "TraceVisitor.visit_LoopStatement:zero-trip"), ("C08", "C16")),
    fire("r5-count-constant-frozen-by-value",
         [(EM, "        new_count = filter_float(self.visit(count))\n", "        new_count = self.visit(count)\n        if isinstance(new_count, Constant):\n            new_count = new_count.value\n        new_count = filter_float(new_count)\n")],
         ("C10.8", "GateReplacer.substitute_count:constant-value-read"), ("C10",)),
    fire("r5-overlap-test-on-elements",
         [(UQ, "            if disjoint and (tgt & src):", "            if disjoint and any(tgt & src):")],
         ("C13.2", "merge_into:intersection-truth"), ("C13",)),
    fire("r5-substituted-index-truncated",
         [(FL, "            new_index = self.resolve_constant(qubit.alias_index)\n", "            new_index = int(self.resolve_constant(qubit.alias_index))\n", 0)],
         ("C05.12", "LetFiller.visit_NamedQubit:truncation"), ("C05",)),
    fire("r5-string-branch-negated-int-test",
         [(RS, "        if isinstance(nxt, str):\n", "        if not isinstance(nxt, int):\n")],
         ("C15.9", "OutputParser.process_trace:string-branch"), ("C15",)),
    fire("r5-only-positive-infinity-rejected",
         [(SLY, '        if token.value in (float("inf"), float("-inf")):\n', '        if token.value == float("inf"):\n')],
         ("*", "JaqalLexer.NUMBER:finite"), ("C01", "C16")),
    fire("r5-float-kind-without-payload-test",
         [(PA, '                and isinstance(_constant_value(value), Real)\n                and _constant_value(value).is_integer()\n', '                and getattr(_constant_value(value), "is_integer", lambda: True)()\n')],
         ("C18.4", "Parameter.validate:float-kind-needs-float-payload"), ("C18",)),
]
