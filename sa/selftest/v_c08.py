"""Variants for C08."""
from .v_c04 import fire, silent

RS = "src/jaqalpaq/core/result.py"
BE = "src/jaqalpaq/emulator/backend.py"
WK = "src/jaqalpaq/core/algorithm/walkers.py"
P = ("C08",)

VARIANTS = [
    fire("c08-readout-index-not-advanced", [(BE, "        self.results.append(mr)\n        self.readout_index += 1", "        self.results.append(mr)")], ("C08.1", "IndependentSubcircuitsEmulatorWalker.process_trace"), P),
    fire("c08-output-parser-wrong-subcircuit", [(RS, "        subcircuit = self.subcircuits[self.index]\n        nxt = next(self.data)", "        subcircuit = self.subcircuits[self.readout_index % len(self.subcircuits)]\n        nxt = next(self.data)")], ("C08.1", "OutputParser.process_trace"), P),
    fire("c08-readout-not-recorded", [(RS, "        subcircuit.accept_readout(mr)\n        self.res.append(mr)", "        subcircuit.accept_readout(mr)")], ("C08.1", "OutputParser.process_trace"), P),
    fire("c08-readout-not-accepted", [(BE, "        subcircuit.accept_readout(mr)\n", "")], ("C08.1", "IndependentSubcircuitsEmulatorWalker.process_trace"), P),
    fire("c08-readout-numbered-by-trace", [(BE, "        mr = Readout(nxt, self.readout_index)", "        mr = Readout(nxt, self.index)")], ("C08.1", "IndependentSubcircuitsEmulatorWalker.process_trace"), P),
    fire("c08-walker-index-not-advanced", [(WK, "                self.process_trace()\n                self.index += 1\n", "                self.process_trace()\n")], ("C08.3", "index-advance"), P),
    fire("c08-loop-runs-once", [(WK, "        for n in range(loop.iterations):\n            # Restore the walk status at the start of every loop", "        for n in range(1):\n            # Restore the walk status at the start of every loop")], ("C08.3", "loop-repeats"), P),
    fire("c08-loop-state-not-restored", [(WK, "            self.objective = objective\n            self.address[:] = address[:]\n            self.index = index\n            self.visit(loop.statements)", "            self.objective = objective\n            self.address[:] = address[:]\n            self.visit(loop.statements)")], ("C08.3", "loop-repeats"), P),
    silent("c08-helper-variable", [(BE, "        mr = Readout(nxt, self.readout_index)\n        subcircuit.accept_readout(mr)\n        self.results.append(mr)", "        mr = Readout(nxt, self.readout_index)\n        results = self.results\n        subcircuit.accept_readout(mr)\n        self.results.append(mr)")], P),
]

WK8 = "src/jaqalpaq/core/algorithm/walkers.py"
VARIANTS += [
    fire("c08-zero-loop-skips-everything",
         [(WK8, "            while self.objective and self.objective[: len(address)] == address:\n", "            while self.objective:\n")],
         ("C08.5", "TraceVisitor.visit_LoopStatement:zero-trip-skip"), ("C08",)),
    fire("c08-zero-loop-not-handled",
         [(WK8, "        if loop.iterations <= 0:\n", "        if False:\n")],
         ("*", "TraceVisitor.visit_LoopStatement"), ("C08",)),
]
VARIANTS += [
    # reverting fix 9160fd4
    fire("c08-discover-guard-repeats-only",
         [(WK8, "        if had_started and (reps != 1) and (open_at_entry.end is not None):", "        if had_started and (reps > 1) and (open_at_entry.end is not None):")],
         ("C08.6", "DiscoverSubcircuits.visit_BlockStatement:repetition-test"), ("C08",)),
    fire("c08-discover-open-trace-accepted",
         [(WK8, "            and (self.current is not open_at_entry)\n", "            and False\n", 1)],
         ("C08.6", "open-trace-left-by-loop"), ("C08",)),
]
VARIANTS += [
    fire("c08-inside-test-polarity",
         [(WK8, "            if address != self.objective[: len(address)]:", "            if address == self.objective[: len(address)]:")],
         ("C08.5", "TraceVisitor.visit_BlockStatement:inside-test"), ("C08",)),
    fire("c08-zero-loop-skip-polarity",
         [(WK8, "            while self.objective and self.objective[: len(address)] == address:\n", "            while self.objective and self.objective[: len(address)] != address:\n")],
         ("C08.5", "TraceVisitor.visit_LoopStatement:inside-test"), ("C08",)),
]
