"""Variants from the survivors of the seventh mutation sweep (sa/rules/sweep5.py and the C08.21 extension)."""
from .v_c04 import fire, silent

WK = "src/jaqalpaq/core/algorithm/walkers.py"
UQ = "src/jaqalpaq/core/algorithm/used_qubit_visitor.py"
UN = "src/jaqalpaq/emulator/unitary.py"
PA = "src/jaqalpaq/parser/parser.py"

_CHG = "                if before[0] is not self.current or before[1] != len(self.subcircuits):\n"
_TR = "        if start is None:\n            self.start = []\n        else:\n            self.start = start\n"

VARIANTS = [
    # ---- parallel refusal means "changed"
    fire("s5-parallel-refusal-when-nothing-changed",
         [(WK, _CHG, "                if not (before[0] is not self.current or before[1] != len(self.subcircuits)):\n")],
         ("*", "DiscoverSubcircuits.visit_BlockStatement:parallel-branches-changed"), ("C13", "C12")),
    fire("s5-parallel-refusal-same-and-same",
         [(WK, _CHG, "                if before[0] is self.current and before[1] == len(self.subcircuits):\n")],
         ("*", "DiscoverSubcircuits.visit_BlockStatement:parallel-branches-changed"), ("C13",)),
    silent("s5-parallel-refusal-de-morgan",
           [(WK, _CHG, "                if not (before[0] is self.current and before[1] == len(self.subcircuits)):\n")],
           ("C13", "C12")),
    # ---- Trace keeps its start
    fire("s5-trace-start-default-negated",
         [(WK, "        if start is None:\n            self.start = []\n", "        if start is not None:\n            self.start = []\n")],
         ("*", "Trace.__init__:start"), ("C08", "C12")),
    fire("s5-trace-start-and",
         [(WK, _TR, "        self.start = start and []\n")],
         ("*", "Trace.__init__:start"), ("C08",)),
    silent("s5-trace-start-conditional-expression",
           [(WK, _TR, "        self.start = [] if start is None else start\n")],
           ("C08", "C12")),
    silent("s5-trace-start-branches-exchanged",
           [(WK, _TR, "        if start is not None:\n            self.start = start\n        else:\n            self.start = []\n")],
           ("C08", "C12")),
    # ---- reps
    fire("s5-reps-is-the-body",
         [(WK, "        return self.visit(obj.statements, context=context, reps=obj.iterations)\n", "        return self.visit(obj.statements, context=context, reps=obj.statements)\n")],
         ("*", "DiscoverSubcircuits.visit_LoopStatement:reps"), ("C12", "C08")),
    fire("s5-reps-dropped",
         [(WK, "        return self.visit(obj.statements, context=context, reps=obj.iterations)\n", "        return self.visit(obj.statements, context=context)\n")],
         ("*", "DiscoverSubcircuits.visit_LoopStatement:reps"), ("C12",)),
    # ---- the empty answer
    fire("s5-empty-answer-negated",
         [(WK, "        if len(subcircuits) == 0:\n            return ()\n", "        if not (len(subcircuits) == 0):\n            return ()\n")],
         ("*", "DiscoverSubcircuits.visit_Circuit:empty-answer"), ("C12", "C08")),
    fire("s5-empty-answer-nonzero",
         [(WK, "        if len(subcircuits) == 0:\n            return ()\n", "        if len(subcircuits) != 0:\n            return ()\n")],
         ("*", "DiscoverSubcircuits.visit_Circuit:empty-answer"), ("C12",)),
    silent("s5-empty-answer-truthiness",
           [(WK, "        if len(subcircuits) == 0:\n            return ()\n", "        if not subcircuits:\n            return ()\n")],
           ("C12", "C08")),
    # ---- argument order of the result constructor
    fire("s5-emulator-subcircuit-index-trace",
         [(UN, "            trace, index, probabilities=probs, state_vector=vec\n", "            index, trace, probabilities=probs, state_vector=vec\n")],
         ("*", "arguments:EmulatorSubcircuit"), ("C08", "C15")),
    # ---- override guards
    fire("s5-override-guard-one-flag",
         [(PA, "        if not (expand_let or expand_let_map):\n", "        if not (expand_let):\n")],
         ("*", "parse_jaqal_string:override-needs-a-flag:both-flags"), ("C10", "C14")),
    fire("s5-override-unknown-names-accepted",
         [(PA, "        if unknown:\n            raise JaqalError(\n                f\"Cannot override {', '.join(map(str, unknown))}: no such let statement\"\n            )\n", "")],
         ("*", "parse_jaqal_string:override-unknown-names"), ("C10", "C14")),
    silent("s5-override-guard-de-morgan",
           [(PA, "        if not (expand_let or expand_let_map):\n", "        if not expand_let and not expand_let_map:\n")],
           ("C10", "C14")),
    # ---- disjoint merge
    fire("s5-parallel-merge-not-disjoint",
         [(UQ, "                    indices, self.visit(sub_obj, context=context), disjoint=True\n", "                    indices, self.visit(sub_obj, context=context), disjoint=False\n")],
         ("C13.30", "UsedQubitIndicesVisitor.visit_BlockStatement:parallel-merge"), ("C13",)),
    silent("s5-parallel-merge-by-the-flag",
           [(UQ, "                    indices, self.visit(sub_obj, context=context), disjoint=True\n", "                    indices, self.visit(sub_obj, context=context), disjoint=obj.parallel\n")],
           ("C13",)),
    # ---- C08.21: a pop without any push
    fire("s5-walk-push-dropped",
         [(WK, "                address.append(n)\n                self.visit(nxt)\n", "                self.visit(nxt)\n")],
         ("*", "TraceVisitor.visit_BlockStatement:address-stack"), ("C08", "C03")),
]
