"""Variants for C15 (and C08.2)."""
from .v_c04 import fire, silent

RS = "src/jaqalpaq/core/result.py"
P = ("C15",)

VARIANTS = [
    fire("c15-readout-not-reversed", [(RS, '        return f"{self._result:b}".zfill(len(self.subcircuit.measured_qubits))[::-1]', '        return f"{self._result:b}".zfill(len(self.subcircuit.measured_qubits))')], ("C15.1", "Readout.as_str"), P),
    fire("c15-frequencies-not-reversed", [(RS, '            [(f"{n:b}".zfill(qubits)[::-1], v) for n, v in enumerate(rf)]', '            [(f"{n:b}".zfill(qubits), v) for n, v in enumerate(rf)]')], ("C15.1", "relative_frequency_by_str"), P),
    fire("c15-string-input-msb-first", [(RS, "            nxt = int(nxt[::-1], 2)", "            nxt = int(nxt, 2)")], ("C15.1", "bitstring-to-int"), P),
    fire("c15-not-padded", [(RS, '        return f"{self._result:b}".zfill(len(self.subcircuit.measured_qubits))[::-1]', '        return f"{self._result:b}"[::-1]')], ("C15.1", "Readout.as_str"), P),
    fire("c15-padded-to-constant", [(RS, '        return OrderedDict([(f"{n:b}".zfill(qubits)[::-1], v) for n, v in enumerate(p)])', '        return OrderedDict([(f"{n:b}".zfill(8)[::-1], v) for n, v in enumerate(p)])')], ("C15.1", "simulated_probability_by_str"), P),
    fire("c15-enumerate-from-one", [(RS, "for n, v in enumerate(p)])", "for n, v in enumerate(p, 1)])")], ("C15.2", "simulated_probability_by_str"), P),
    fire("c15-str-view-of-other-data", [(RS, "        rf = self._relative_frequencies\n        return OrderedDict(", "        rf = sorted(self._relative_frequencies)\n        return OrderedDict(")], ("C15.2", "relative_frequency_by_str"), P),
    fire("c15-count-by-two", [(RS, "        self._relative_frequencies[readout.as_int] += 1", "        self._relative_frequencies[readout.as_int] += 2")], ("C15.3", "accept_readout"), P),
    fire("c15-count-wrong-bin", [(RS, "        self._relative_frequencies[readout.as_int] += 1", "        self._relative_frequencies[readout.index] += 1")], ("C15.3", "accept_readout"), P),
    fire("c15-alias-wrong-kind", [(RS, "        return self.simulated_probability_by_int\n", "        return self.simulated_probability_by_str\n")], ("C15.4", "alias-kind"), P),
    silent("c15-format-builtin", [(RS, '        return f"{self._result:b}".zfill(len(self.subcircuit.measured_qubits))[::-1]', '        width = len(self.subcircuit.measured_qubits)\n        return format(self._result, "b").zfill(width)[::-1]')], P),
    silent("c15-reversed-join", [(RS, "            nxt = int(nxt[::-1], 2)", '            nxt = int("".join(reversed(nxt)), 2)')], P),
]

RS15 = "src/jaqalpaq/core/result.py"
VARIANTS += [
    # reverting fix 2aa8d44
    fire("c15-string-view-width-from-trace",
         [(RS15, "        qubits = len(self.measured_qubits)\n        rf = self._relative_frequencies", "        qubits = len(self._trace.used_qubits)\n        rf = self._relative_frequencies")],
         ("C15.7", "relative_frequency_by_str:width-source"), ("C15",)),
]
VARIANTS += [
    fire("c15-zero-counts-polarity",
         [(RS15, "        if relative_frequencies is None:\n            self._relative_frequencies = numpy.zeros", "        if relative_frequencies is not None:\n            self._relative_frequencies = numpy.zeros")],
         ("C15.8", "zero-counts-when-none-given"), ("C15",)),
]
