from . import main
raise SystemExit(main())
