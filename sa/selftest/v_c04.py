"""Variants for C04 (macro expansion)."""

EM = "src/jaqalpaq/core/algorithm/expand_macros.py"


def fire(name, edits, expect, props=("C04",)):
    return {"name": name, "kind": "fire", "edits": edits, "expect": expect, "properties": list(props)}


def silent(name, edits, props=("C04",)):
    return {"name": name, "kind": "silent", "edits": edits, "properties": list(props)}


VARIANTS = [
    fire("c04-expander-drops-subcircuit",
         [(EM, "            subcircuit=block.subcircuit,\n            iterations=block.iterations,\n", "")],
         ("C04.1", "MacroExpander:BlockStatement.subcircuit")),
    fire("c04-expander-constant-parallel",
         [(EM, "        return BlockStatement(\n            parallel=block.parallel,\n            subcircuit=block.subcircuit,\n            iterations=block.iterations,",
           "        return BlockStatement(\n            parallel=False,\n            subcircuit=block.subcircuit,\n            iterations=block.iterations,")],
         ("C04.1", "MacroExpander.visit_BlockStatement:BlockStatement(parallel)")),
    fire("c04-expander-loop-count-constant",
         [(EM, "        return LoopStatement(loop.iterations, self.visit(loop.statements))", "        return LoopStatement(1, self.visit(loop.statements))")],
         ("C04.1", "MacroExpander:LoopStatement.iterations")),
    fire("c04-expander-drops-usepulses",
         [(EM, "        new_circuit.usepulses.extend(circuit.usepulses)\n", "")],
         ("C04.1", "Circuit.usepulses")),
    fire("c04-expander-fills-constants-from-registers",
         [(EM, "        new_circuit.constants.update(circuit.constants)\n        new_circuit.registers.update(circuit.registers)\n        new_circuit.usepulses",
           "        new_circuit.constants.update(circuit.registers)\n        new_circuit.registers.update(circuit.registers)\n        new_circuit.usepulses")],
         ("C04.1", "Circuit")),
    fire("c04-replacer-iterations-not-visited",
         [(EM, "            iterations=self.substitute_count(block.iterations),\n", "            iterations=block.iterations,\n")],
         ("C04.5", "BlockStatement.iterations")),
    fire("c04-replacer-loop-count-not-visited",
         [(EM, "            iterations=self.substitute_count(loop.iterations),\n", "            iterations=loop.iterations,\n")],
         ("C04.5", "LoopStatement.iterations")),
    fire("c04-splice-ignores-subcircuit",
         [(EM, "                and not new_stmt.subcircuit\n", "", 0)],
         ("C04.2", "MacroExpander.visit_BlockStatement:splice")),
    fire("c04-replacer-splice-ignores-subcircuit",
         [(EM, "                and not new_stmt.subcircuit\n", "", 1)],
         ("C04.2", "GateReplacer.visit_BlockStatement:splice")),
    fire("c04-no-arity-check",
         [(EM, """        if len(gate.parameters) != len(macro.parameters):
            raise JaqalError(
                f"Cannot expand {gate.name}: wrong argument count: {len(gate.parameters)} != {len(macro.parameters)}"
            )
""", "")],
         ("C04.3", "arity-guard")),
    fire("c04-one-sided-arity-check",
         [(EM, "        if len(gate.parameters) != len(macro.parameters):\n", "        if len(gate.parameters) < len(macro.parameters):\n")],
         ("C04.3", "arity-guard")),
    fire("c04-nested-call-not-expanded",
         [(EM, "        new_gate = gate.gate_def(*new_parameters.values())\n        return replace_gate(new_gate, self.macros)",
           "        new_gate = gate.gate_def(*new_parameters.values())\n        return new_gate")],
         ("C04.4", "GateReplacer:visit_GateStatement")),
    fire("c04-replacer-drops-gate-args",
         [(EM, "        new_gate = gate.gate_def(*new_parameters.values())", "        new_gate = gate.gate_def()")],
         ("C04.1", "GateStatement")),
    fire("c04-index-not-substituted",
         [(EM, "        alias_index = filter_float(self.visit(qubit.alias_index))", "        alias_index = qubit.alias_index")],
         ("C04.5", "NamedQubit.alias_index")),
    # ---- behaviour-preserving rewrites
    silent("c04-rename-locals",
           [(EM, "        new_statements = []\n        for stmt in block.statements:\n            new_stmt = self.visit(stmt)",
             "        new_statements = []\n        for child in block.statements:\n            new_stmt = self.visit(child)", 0)]),
    silent("c04-extract-flags",
           [(EM, "        return BlockStatement(\n            parallel=block.parallel,\n            subcircuit=block.subcircuit,\n            iterations=block.iterations,\n            statements=new_statements,\n        )",
             "        is_par = block.parallel\n        is_sub = block.subcircuit\n        count = block.iterations\n        return BlockStatement(\n            parallel=is_par,\n            subcircuit=is_sub,\n            iterations=count,\n            statements=new_statements,\n        )")]),
    silent("c04-early-return-arity",
           [(EM, "        if len(gate.parameters) != len(macro.parameters):\n            raise JaqalError(",
             "        n_args = len(gate.parameters)\n        if n_args != len(macro.parameters):\n            raise JaqalError(")]),
    silent("c04-branch-on-parallel",
           [(EM, "        return BlockStatement(\n            parallel=block.parallel,\n            subcircuit=block.subcircuit,\n            iterations=self.substitute_count(block.iterations),\n            statements=new_statements,\n        )",
             "        count = self.substitute_count(block.iterations)\n        if block.parallel:\n            return BlockStatement(parallel=True, subcircuit=block.subcircuit, iterations=count, statements=new_statements)\n        return BlockStatement(parallel=False, subcircuit=block.subcircuit, iterations=count, statements=new_statements)")]),
]
