"""Variants for C06 / C03."""
from .v_c04 import fire, silent

UN = "src/jaqalpaq/emulator/unitary.py"
FM = "src/jaqalpaq/core/algorithm/fill_in_map.py"
UQ = "src/jaqalpaq/core/algorithm/used_qubit_visitor.py"
GE = "src/jaqalpaq/generator/generator.py"
RUN = "src/jaqalpaq/run/run.py"

VARIANTS = [
    fire("c06-emulator-raw-index",
         [(UN, "                    qind.append(val.resolve_qubit()[1])", "                    qind.append(val.alias_index)")],
         ("C06.1", "emulator.unitary:raw-alias-index"), ("C06",)),
    fire("c06-emulator-raw-index-via-helper-var",
         [(UN, "                    qind.append(val.resolve_qubit()[1])", "                    pos = val.alias_index\n                    qind.append(pos)")],
         ("C06.1", "emulator.unitary:raw-alias-index"), ("C06",)),
    fire("c06-mapfiller-recomputes-slice",
         [(FM, "        reg, index = qubit.resolve_qubit()\n        if reg.name in self.shadowed:", "        src = qubit.alias_from\n        if src.alias_slice is not None:\n            return src.alias_from[(src.alias_slice.start or 0) + qubit.alias_index * (src.alias_slice.step or 1)]\n        reg, index = qubit.resolve_qubit()\n        if reg.name in self.shadowed:")],
         ("C06.3", "MapFiller.visit_NamedQubit:slice-arithmetic"), ("C06",)),
    fire("c06-misspelt-attribute",
         [(FM, "        if reg.fundamental:", "        if reg.is_fundamental:")],
         ("C06.2", "attr:Register.is_fundamental"), ("C06",)),
    fire("c06-misspelt-attribute-generator",
         [(UQ, "        size = int(obj.resolve_size())", "        size = int(obj.resolved_size())")],
         ("C06.2", "attr:Register.resolved_size"), ("C06",)),
    silent("c06-structure-preserving-read",
           [(GE, "def generate_jaqal_value(val):", "def _describe(qubit):\n    return (qubit.alias_from.name, qubit.alias_index)\n\n\ndef generate_jaqal_value(val):")], ("C06",)),
]
