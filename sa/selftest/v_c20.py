"""Variants for C20."""
from .v_c04 import fire, silent

BL = "src/jaqalpaq/core/block.py"
GA = "src/jaqalpaq/core/gate.py"
RG = "src/jaqalpaq/core/register.py"
CI = "src/jaqalpaq/core/circuit.py"
MA = "src/jaqalpaq/core/macro.py"
CO = "src/jaqalpaq/core/constant.py"
P = ("C20",)

VARIANTS = [
    fire("c20-block-ignores-subcircuit", [(BL, "                and self.subcircuit == other.subcircuit\n", "")], ("C20.1", "BlockStatement:__eq__:_subcircuit"), P),
    fire("c20-loop-ignores-count", [(BL, "                self.iterations == other.iterations\n                and self.statements == other.statements", "                self.statements == other.statements")], ("C20.1", "LoopStatement:__eq__:_iterations"), P),
    fire("c20-circuit-ignores-usepulses", [(CI, "                and self.usepulses == other.usepulses\n", "")], ("C20.1", "Circuit:__eq__:_usepulses"), P),
    fire("c20-gate-bare-zip", [(GA, "                for sparam, oparam in zip_longest(\n", "                for sparam, oparam in zip(\n")], ("C20.2", "GateStatement:__eq__:pairing"), P),
    fire("c20-qubit-ignores-index", [(RG, "                and self.alias_index == other.alias_index\n", "")], ("C20.1", "NamedQubit:__eq__:_alias_index"), P),
    fire("c20-register-ignores-slice", [(RG, "                if mine.alias_slice != theirs.alias_slice:\n                    return False\n", "")], ("C20.1", "Register:__eq__:_alias_slice"), P),
    fire("c20-constant-ignores-value", [(CO, "            return self.name == other.name and self.value == other.value", "            return self.name == other.name")], ("C20.1", "Constant:__eq__:_value"), P),
    fire("c20-macro-not-total", [(MA, "        try:\n            return (\n                self.name == other.name\n                and self.parameters == other.parameters\n                and self.body == other.body\n            )\n        except AttributeError:\n            return False", "        return (\n            self.name == other.name\n            and self.parameters == other.parameters\n            and self.body == other.body\n        )")], ("C20.3", "Macro:__eq__:total"), P),
    fire("c20-body-by-identity", [(MA, "                and self.body == other.body", "                and self.body is other.body")], ("C20.4", "Macro:__eq__:by-value"), P),
    fire("c20-one-sided-read", [(BL, "                self.parallel == other.parallel\n", "                self.parallel == self.parallel\n")], ("C20.1", "BlockStatement:__eq__:_parallel"), P),
    silent("c20-tuple-compare",
           [(BL, "            return (\n                self.parallel == other.parallel\n                and self.subcircuit == other.subcircuit\n                and self.iterations == other.iterations\n                and self.statements == other.statements\n            )",
             "            mine = (self.parallel, self.subcircuit, self.iterations, self.statements)\n            theirs = (other.parallel, other.subcircuit, other.iterations, other.statements)\n            return mine == theirs")], P),
    silent("c20-isinstance-guard",
           [(MA, "        try:\n            return (\n                self.name == other.name\n                and self.parameters == other.parameters\n                and self.body == other.body\n            )\n        except AttributeError:\n            return False", "        if not isinstance(other, Macro):\n            return False\n        return (\n            self.name == other.name\n            and self.parameters == other.parameters\n            and self.body == other.body\n        )")], P),
]

RG20 = "src/jaqalpaq/core/register.py"
VARIANTS += [
    # reverting fix 7f8b052
    fire("c20-register-eq-case-split-one-sided",
         [(RG20, "                if mine.fundamental != theirs.fundamental:\n                    # A register never equals an alias, even one of the same size\n                    return False\n", "")],
         ("C20.7", "Register:__eq__:case-split:fundamental"), ("C20",)),
]
