"""Variants for C14."""
from .v_c04 import fire, silent

RG = "src/jaqalpaq/core/register.py"
CB = "src/jaqalpaq/core/circuitbuilder.py"
GD = "src/jaqalpaq/core/gatedef.py"
PM = "src/jaqalpaq/core/parameter.py"
UP = "src/jaqalpaq/core/usepulses.py"
P = ("C14",)

VARIANTS = [
    fire("c14-index-upper-only", [(RG, "            if alias_index >= from_size or alias_index < 0:", "            if alias_index >= from_size:")], ("C14.1", "NamedQubit.__init__"), P),
    fire("c14-resolve-upper-only", [(RG, "        if idx < 0 or (size is not None and idx >= int(size)):", "        if size is not None and idx >= int(size):")], ("C14.1", "Register.resolve_qubit"), P),
    fire("c14-slice-upper-only",
         [(RG, "                # (truth value, not len(): the length of a huge range does\n                # not fit a machine integer)\n                if indices and (\n                    min(indices[0], indices[-1]) < 0\n                    or max(indices[0], indices[-1]) >= alias_from.size\n                ):\n                    raise JaqalError(\"Index out of range.\")\n", "")],
         ("C14.1", "Register.__init__"), P),
    fire("c14-duplicates-overwrite",
         [(CB, "        if name in context:\n            raise JaqalError(f\"Object {obj} already exists in context\")\n        context[name] = obj", "        context[name] = obj")],
         ("C14.2", "duplicate-check"), P),
    fire("c14-constants-not-recorded-in-context",
         [(CB, "                constants[obj.name] = obj\n                self.add_to_context(context, obj.name, obj)", "                constants[obj.name] = obj\n                context[obj.name] = obj")],
         ("C14.2", "records:constants"), P),
    fire("c14-macro-redefines-gate",
         [(CB, "        if name in gate_context:\n            raise JaqalError(f\"Attempting to redefine gate {name}\")\n", "")],
         ("C14.2", "redefinition-check"), P),
    fire("c14-unknown-identifier-passes",
         [(CB, "            if expression in context:\n                return context[expression]\n            raise JaqalError(f\"Identifier {expression} not found in context\")", "            if expression in context:\n                return context[expression]\n            return expression")],
         ("C14.2", "unknown-identifier"), P),
    fire("c14-anonymous-gate-with-injected-pulses",
         [(CB, "        return (self.inject_pulses is None) and not self.autoload_pulses", "        return not self.autoload_pulses")],
         ("C14.2", "anonymous-gate"), P),
    fire("c14-arity-check-removed",
         [(GD, "        if len(self.parameters) != len(params):\n            raise JaqalError(\n                f\"Bad argument count: expected {len(self.parameters)}, found {len(params)}\"\n            )\n", "")],
         ("C14.2", "arity"), P),
    fire("c14-validate-skipped",
         [(GD, "        for param in self.parameters:\n            param.validate(params[param.name])\n        return GateStatement(self, params)", "        return GateStatement(self, params)")],
         ("C14.2", "validate-all"), P),
    fire("c14-register-kind-unchecked",
         [(PM, "        elif self.kind == ParamType.REGISTER:\n            if isinstance(value, Register):\n                pass\n            elif isinstance(value, AnnotatedValue) and value.kind in (\n                ParamType.REGISTER,\n                ParamType.NONE,\n            ):\n                pass\n            else:\n                raise JaqalError(\n                    f\"Type-checking failed: parameter {self.name}={value} does not have type {self.kind}.\"\n                )\n", "")],
         ("C14.3", "kind:REGISTER"), P),
    fire("c14-float-branch-accepts-anything",
         [(PM, "                if isinstance(number, Integral):\n                    self._check_float_range(number, value)\n            else:\n                raise JaqalError(\n                    f\"Type-checking failed: parameter {self.name}={value} does not have type {self.kind}.\"\n                )", "                if isinstance(number, Integral):\n                    self._check_float_range(number, value)")],
         ("C14.3", "kind:FLOAT"), P),
    fire("c14-index-anything",
         [(CB, "        if not isinstance(built_identifier, (Register, Parameter)):\n            raise JaqalError(f\"Cannot index {identifier}: it is not a register\")\n", "")],
         ("C14.4", "indexable"), P),
    fire("c14-imports-override-injected",
         [(UP, "            if inject_pulses and g.name in inject_pulses:\n                continue\n", "")],
         ("C14.5", "injected-wins"), P),
    fire("c14-earlier-import-wins",
         [(UP, "            gates[g.name] = g", "            if g.name not in gates:\n                gates[g.name] = g")],
         ("C14.5", "later-import-wins"), P),
    fire("c14-qubit-source-kind-unchecked",
         [(RG, "        if not isinstance(alias_from, (Register, AnnotatedValue)):\n            raise JaqalError(f\"Cannot index {alias_from}: it is not a register.\")\n", "")],
         ("C14.4", "NamedQubit.__init__:kind-guard:alias_from"), P),
    fire("c14-loop-count-kind-unchecked",
         [(CB, "        built_count = self.build_count(count, context, gate_context)\n        built_block = self.build(block, context, gate_context)", "        built_count = self.build(count, context, gate_context)\n        built_block = self.build(block, context, gate_context)")],
         ("C14.4", "Builder.build_loop:count-kind"), P),
    fire("c14-substituted-gate-not-revalidated",
         [("src/jaqalpaq/core/algorithm/expand_macros.py", "        new_gate = gate.gate_def(*new_parameters.values())", "        new_gate = GateStatement(gate.gate_def, new_parameters)")],
         ("C14.6", "direct-GateStatement"), P),
    silent("c14-range-idiom",
           [(RG, "            if alias_index >= from_size or alias_index < 0:", "            if alias_index not in range(from_size):")], P),
    silent("c14-chained-compare",
           [(RG, "            if alias_index >= from_size or alias_index < 0:", "            if not (0 <= alias_index < from_size):")], P),
]

EM14 = "src/jaqalpaq/core/algorithm/expand_macros.py"
CB14 = "src/jaqalpaq/core/circuitbuilder.py"
VARIANTS += [
    # reverting fix 359688b
    fire("c14-substituted-loop-count-unchecked",
         [(EM14, "            iterations=self.substitute_count(loop.iterations),", "            iterations=self.visit(loop.iterations),")],
         ("C14.4", "GateReplacer.visit_LoopStatement:substituted-count-kind"), ("C14",)),
    fire("c14-substituted-subcircuit-count-unchecked",
         [(EM14, "            iterations=self.substitute_count(block.iterations),", "            iterations=self.visit(block.iterations),")],
         ("C14.4", "GateReplacer.visit_BlockStatement:substituted-count-kind"), ("C14",)),
]
VARIANTS += [
    # reverting fix 26e38ab
    fire("c14-repeated-macro-parameter-accepted",
         [(CB14, "        if len(parameter_dict) != len(parameter_list):\n            raise JaqalError(f\"Macro {name} has a repeated parameter name\")\n", "")],
         ("C14.2", "Builder.build_macro:repeated-parameter"), ("C14",)),
]
RG14b = "src/jaqalpaq/core/register.py"
VARIANTS += [
    # reverting fix 900b1ff
    fire("c14-register-size-sign-unchecked",
         [(RG14b, '        elif size is not None and size <= 0:\n            raise JaqalError(f"Register {name} cannot have size {size}.")\n', "")],
         ("C14.4", "Register.__init__:size-positive"), ("C14",)),
]
VARIANTS += [
    fire("c14-index-equal-to-size-accepted",
         [(RG14b, "        if idx < 0 or (size is not None and idx >= int(size)):", "        if idx < 0 or (size is not None and idx > int(size)):")],
         ("C14.1", "Register.resolve_qubit:bound-strictness"), ("C14",)),
    fire("c14-namedqubit-index-equal-to-size-accepted",
         [(RG14b, "            if alias_index >= from_size or alias_index < 0:", "            if alias_index > from_size or alias_index < 0:")],
         ("C14.1", "NamedQubit.__init__:bound-strictness"), ("C14",)),
]
VARIANTS += [
    # reverting fix f4b5414
    fire("c14-unused-macro-argument-unchecked",
         [(EM14, "        for arg in gate.parameters.values():\n            check_argument(arg)\n", "")],
         ("C14.4", "replace_gate:macro-arguments-checked"), ("C14",)),
]
