"""Variants for C11 (ownership)."""
from .v_c04 import fire, silent

EM = "src/jaqalpaq/core/algorithm/expand_macros.py"
FL = "src/jaqalpaq/core/algorithm/fill_in_let.py"
ES = "src/jaqalpaq/core/algorithm/expand_subcircuits.py"
UT = "src/jaqalpaq/core/algorithm/unit_timing.py"
UQ = "src/jaqalpaq/core/algorithm/used_qubit_visitor.py"
WK = "src/jaqalpaq/core/algorithm/walkers.py"
GE = "src/jaqalpaq/generator/generator.py"
RUN = "src/jaqalpaq/run/run.py"
UN = "src/jaqalpaq/emulator/unitary.py"
RES = "src/jaqalpaq/core/result.py"
P = ("C11",)

VARIANTS = [
    fire("c11-append-to-input-block",
         [(ES, "        statements = [self.visit(stmt) for stmt in block.statements]\n        return BlockStatement(parallel=block.parallel, statements=statements)",
           "        statements = block.statements\n        for i, stmt in enumerate(statements):\n            statements[i] = self.visit(stmt)\n        return BlockStatement(parallel=block.parallel, statements=statements)")],
         ("C11.1", "SubcircuitExpander.process_non_subcircuit_block"), P),
    fire("c11-fill-native-gates-in-place",
         [(EM, "        new_circuit = Circuit(native_gates=circuit.native_gates)\n        if self.preserve_definitions:", "        new_circuit = Circuit(native_gates=circuit.native_gates)\n        new_circuit.native_gates.update({})\n        if self.preserve_definitions:")],
         ("C11.1", "MacroExpander.visit_Circuit"), P),
    fire("c11-reuse-input-body",
         [(UT, "        new_circuit.body.statements.extend(self.visit(circuit.body).statements)\n        return new_circuit", "        body = circuit.body\n        body.statements.extend(self.visit(circuit.body).statements)\n        return new_circuit")],
         ("C11.1", "BlockNormalizer.visit_Circuit"), P),
    fire("c11-normalise-register-size",
         [(FL, "                new_size = self.resolve_constant(reg.size)\n                return Register(reg.name, new_size)", "                new_size = self.resolve_constant(reg.size)\n                reg._size = new_size\n                return reg")],
         ("C11.1", "LetFiller.visit_Register"), P),
    fire("c11-memo-on-gate-statement",
         [(UQ, "        indices = defaultdict(set)\n        # Note: This could be more elegant with a is_macro method on gates", "        indices = defaultdict(set)\n        obj._used_cache = indices\n        # Note: This could be more elegant with a is_macro method on gates")],
         ("C11.1", "UsedQubitIndicesVisitor.visit_GateStatement"), P),
    fire("c11-override-written-into-constants",
         [(FL, "        body = self.visit(circuit.body)\n        statements = body[1:]", "        circuit.constants.update(self.override_dict)\n        body = self.visit(circuit.body)\n        statements = body[1:]")],
         ("C11.1", "LetFiller.visit_Circuit"), P),
    fire("c11-sort-statements-in-place",
         [(GE, "    for statement in circ.body:\n", "    circ.body.statements.sort(key=id)\n    for statement in circ.body:\n")],
         ("C11.1", "generate_jaqal_program"), P),
    fire("c11-macros-popped",
         [(EM, "    if gate.name in macros:\n        macro = macros[gate.name]", "    if gate.name in macros:\n        macro = macros.pop(gate.name)")],
         ("C11.1", "replace_gate"), P),
    fire("c11-visitor-state-aliases-input",
         [(UQ, "        self.all_qubits = {}\n        for reg in obj.fundamental_registers():\n            self.all_qubits[reg.name] = set(range(int(reg.size)))", "        self.all_qubits = obj.registers\n        for reg in obj.fundamental_registers():\n            self.all_qubits[reg.name] = set(range(int(reg.size)))")],
         ("C11.1", "UsedQubitIndicesVisitor.visit_Circuit"), P),
    fire("c11-gate-parameters-rewritten",
         [(UN, "            for param, val in zip(gatedef.parameters, gate.parameters.values()):\n", "            gate.parameters.clear()\n            for param, val in zip(gatedef.parameters, gate.parameters.values()):\n")],
         ("C11.1", "_make_subcircuit"), P),
    fire("c11-helper-mutates-argument",
         [(EM, "def filter_float(value):", "def _strip(block):\n    del block.statements[1:]\n    return block\n\n\ndef filter_float(value):"),
          (EM, "    def visit_LoopStatement(self, loop):\n        return LoopStatement(loop.iterations, self.visit(loop.statements))", "    def visit_LoopStatement(self, loop):\n        return LoopStatement(loop.iterations, self.visit(_strip(loop.statements)))")],
         ("C11.1", "_strip"), P),
    fire("c11-output-parser-tags-circuit",
         [(RES, "    visitor = DiscoverSubcircuits()\n    w = OutputParser(visitor.visit(circuit), output)", "    visitor = DiscoverSubcircuits()\n    circuit.body._parsed = True\n    w = OutputParser(visitor.visit(circuit), output)")],
         ("C11.1", "parse_jaqal_output_list"), P),
    silent("c11-copy-then-mutate",
           [(ES, "        statements = [self.visit(stmt) for stmt in block.statements]\n        return BlockStatement(parallel=block.parallel, statements=statements)",
             "        statements = list(block.statements)\n        for i, stmt in enumerate(statements):\n            statements[i] = self.visit(stmt)\n        return BlockStatement(parallel=block.parallel, statements=statements)")], P),
    silent("c11-copy-native-gates",
           [(EM, "        new_circuit = Circuit(native_gates=circuit.native_gates)\n        if self.preserve_definitions:", "        new_circuit = Circuit(native_gates=dict(circuit.native_gates))\n        new_circuit.native_gates.update({})\n        if self.preserve_definitions:")], P),
    silent("c11-sorted-copy",
           [(GE, "    for statement in circ.body:\n", "    ordered = sorted(circ.body.statements, key=id)\n    ordered.reverse()\n    for statement in circ.body:\n")], P),
    silent("c11-slice-copy",
           [(UT, "        visited_statements = [self.visit(stmt) for stmt in obj.statements]", "        originals = obj.statements[:]\n        originals.reverse()\n        originals.reverse()\n        visited_statements = [self.visit(stmt) for stmt in originals]")], P),
]
