"""Variants for the fast-path rule (C04.7, C05.7, C07.4, C09.7, C10.7, C19.4)."""
from .v_c04 import fire, silent

ES = "src/jaqalpaq/core/algorithm/expand_subcircuits.py"
EM = "src/jaqalpaq/core/algorithm/expand_macros.py"
FL = "src/jaqalpaq/core/algorithm/fill_in_let.py"
FM = "src/jaqalpaq/core/algorithm/fill_in_map.py"
CB = "src/jaqalpaq/core/circuitbuilder.py"

HELPER = '''

def _has_subcircuit(stmt):
    if isinstance(stmt, LoopStatement):
        return _has_subcircuit(stmt.statements)
    if isinstance(stmt, BlockStatement):
        return stmt.subcircuit or any(_has_subcircuit(sub) for sub in stmt.statements)
    return False
'''

VARIANTS = [
    fire("fp-expand-subcircuits-body-only-shortcut",
         [(ES, '    prepare_def = _choose_bounding_gate(prepare_def, "prepare_all", circuit)\n', '    if not _has_subcircuit(circuit.body):\n        return circuit\n    prepare_def = _choose_bounding_gate(prepare_def, "prepare_all", circuit)\n'),
          (ES, "\n\ndef _choose_bounding_gate(", HELPER + "\n\ndef _choose_bounding_gate(")],
         ("*", "expand_subcircuits:fast-path:return circuit"), ("C09", "C10")),
    silent("fp-expand-subcircuits-shortcut-consults-macros",
           [(ES, '    prepare_def = _choose_bounding_gate(prepare_def, "prepare_all", circuit)\n', '    if not _has_subcircuit(circuit.body) and not any(_has_subcircuit(m.body) for m in circuit.macros.values()):\n        return circuit\n    prepare_def = _choose_bounding_gate(prepare_def, "prepare_all", circuit)\n'),
            (ES, "\n\ndef _choose_bounding_gate(", HELPER + "\n\ndef _choose_bounding_gate(")],
           ("C09", "C10")),
    fire("fp-replacer-parameterless-macro-shortcut",
         [(EM, "        self.parameters = macro.parameters\n        return self.visit(macro.body)", "        self.parameters = macro.parameters\n        if not self.parameters:\n            return macro.body\n        return self.visit(macro.body)")],
         ("*", "GateReplacer.visit_Macro:fast-path:return macro.body"), ("C04", "C10")),
    fire("fp-letfiller-alias-shortcut",
         [(FL, "        else:\n            new_alias_from = self.visit(reg.alias_from)\n", "        elif reg.alias_slice is None:\n            return reg\n        else:\n            new_alias_from = self.visit(reg.alias_from)\n")],
         ("*", "LetFiller.visit_Register"), ("C05",)),
    fire("fp-relinker-loop-shortcut",
         [(CB, "        changed, new_statements = self.visit(loop.statements)\n        if changed:\n            return changed, LoopStatement(loop.iterations, new_statements)",
           "        if isinstance(loop.iterations, int):\n            return False, loop\n        changed, new_statements = self.visit(loop.statements)\n        if changed:\n            return changed, LoopStatement(loop.iterations, new_statements)")],
         ("*", "RebuildMacroInContextVisitor.visit_LoopStatement:fast-path:return loop"), ("C07",)),
    silent("fp-relinker-empty-block-shortcut",
           [(CB, "    def visit_BlockStatement(self, block):\n        changed = False\n        new_statements = []\n", "    def visit_BlockStatement(self, block):\n        if not block.statements:\n            return False, block\n        changed = False\n        new_statements = []\n", 0)],
           ("C07", "C04")),
]
