"""Variants for C13."""
from .v_c04 import fire, silent

UQ = "src/jaqalpaq/core/algorithm/used_qubit_visitor.py"
WK = "src/jaqalpaq/core/algorithm/walkers.py"
GD = "src/jaqalpaq/core/gatedef.py"
RG = "src/jaqalpaq/core/register.py"
P = ("C13",)

VARIANTS = [
    fire("c13-no-loop-handler",
         [(UQ, "    def visit_LoopStatement(self, obj, context=None):\n        return self.visit(obj.statements, context=context)\n\n", "")],
         ("C13.1", "UsedQubitIndicesVisitor:handles:LoopStatement"), P),
    fire("c13-walker-never-disjoint",
         [(WK, "            self.merge_into(\n                indices, self.visit(stmt, context=context), disjoint=block.parallel\n            )", "            self.merge_into(indices, self.visit(stmt, context=context))")],
         ("C13.2", "DiscoverSubcircuits.visit_BlockStatement"), P),
    fire("c13-walker-always-disjoint",
         [(WK, "disjoint=block.parallel\n", "disjoint=True\n")],
         ("C13.2", "DiscoverSubcircuits.visit_BlockStatement"), P),
    fire("c13-merge-ignores-flag",
         [(UQ, "            if disjoint and (tgt & src):", "            if tgt & src and False:")],
         ("C13.2", "merge_into:disjoint-guard"), P),
    fire("c13-idle-reports-qubits",
         [(GD, "        yield from ()\n", "        yield from self._parent_def.used_qubits\n")],
         ("C13.3", "IdleGateDefinition:used_qubits"), P),
    fire("c13-busy-reports-parameters",
         [(GD, "    @property\n    def used_qubits(self):\n        yield all\n", "")],
         ("C13.3", "BusyGateDefinition:used_qubits"), P),
    fire("c13-all-marker-ignored",
         [(UQ, "                if param is all:\n                    self.merge_into(indices, self._all_qubits())\n                else:\n                    self.merge_into(indices, self.visit(param, context=context))", "                if param is not all:\n                    self.merge_into(indices, self.visit(param, context=context))")],
         ("C13.3", "all-marker"), P),
    fire("c13-size-not-converted",
         [(UQ, "set(range(int(reg.size)))", "set(range(reg.size))")],
         ("C13.5", "size-as-int"), P),
    fire("c13-raw-arguments-in-callee-scope",
         [(UQ, "            macro_context = {**context, **arguments}", "            macro_context = {**context, **obj.parameters}")],
         ("C13.6", "callee-context"), P),
    silent("c13-update-instead-of-ior",
           [(UQ, "            tgt |= src", "            tgt.update(src)")], P),
    silent("c13-isdisjoint",
           [(UQ, "            if disjoint and (tgt & src):", "            if disjoint and not tgt.isdisjoint(src):")], P),
]

UQ13 = "src/jaqalpaq/core/algorithm/used_qubit_visitor.py"
VARIANTS += [
    # reverting part of fix 28d77d7
    fire("c13-subcircuit-block-implicit-gates-ignored",
         [(UQ13, "        if obj.subcircuit:\n            # A subcircuit block prepares and measures every qubit\n            self.merge_into(indices, self._all_qubits())\n", "")],
         ("C13.1", "visit_BlockStatement:subcircuit-implicit-gates"), ("C13",)),
]
VARIANTS += [
    # reverting fix a3b5795
    fire("c13-resolve-size-used-as-int",
         [(UQ13, "        size = int(obj.resolve_size())\n", "        size = obj.resolve_size()\n")],
         ("C13.5", "visit_Register:size-as-int"), ("C13",)),
]
