"""Variants for C09 (subcircuit expansion) and C19 (unit timing)."""
from .v_c04 import fire, silent

ES = "src/jaqalpaq/core/algorithm/expand_subcircuits.py"
UT = "src/jaqalpaq/core/algorithm/unit_timing.py"
RES = "src/jaqalpaq/core/result.py"
RUN = "src/jaqalpaq/run/run.py"

VARIANTS = [
    fire("c09-measure-first",
         [(ES, "            self.prepare_def(),\n            *(self.visit(stmt) for stmt in block.statements),\n            self.measure_def(),",
           "            self.measure_def(),\n            *(self.visit(stmt) for stmt in block.statements),\n            self.prepare_def(),")],
         ("C09.1", "subcircuit-shape"), ("C09",)),
    fire("c09-no-measure",
         [(ES, "            *(self.visit(stmt) for stmt in block.statements),\n            self.measure_def(),", "            *(self.visit(stmt) for stmt in block.statements),")],
         ("C09.1", "subcircuit-shape"), ("C09",)),
    fire("c09-body-not-visited",
         [(ES, "            self.prepare_def(),\n            *(self.visit(stmt) for stmt in block.statements),", "            self.prepare_def(),\n            *block.statements,")],
         ("C09.1", "subcircuit-shape"), ("C09",)),
    fire("c09-keeps-subcircuit-flag",
         [(ES, "        return BlockStatement(parallel=block.parallel, statements=statements)\n\n    def process_non", "        return BlockStatement(parallel=block.parallel, subcircuit=block.subcircuit, statements=statements)\n\n    def process_non")],
         ("C09.2", "constructs-plain-block"), ("C09",)),
    fire("c09-macros-copied-unvisited",
         [(ES, "        for name, macro in circuit.macros.items():\n            new_circuit.macros[name] = self.visit(macro)\n", "        new_circuit.macros.update(circuit.macros)\n")],
         ("C09.2", "Macro.body:visited"), ("C09",)),
    fire("c09-loop-count-lost",
         [(ES, "        return LoopStatement(loop.iterations, self.visit(loop.statements))", "        return LoopStatement(1, self.visit(loop.statements))")],
         ("C09.3", "LoopStatement.iterations"), ("C09",)),
    fire("c09-block-kind-lost",
         [(ES, "        statements = [self.visit(stmt) for stmt in block.statements]\n        return BlockStatement(parallel=block.parallel, statements=statements)", "        statements = [self.visit(stmt) for stmt in block.statements]\n        return BlockStatement(statements=statements)")],
         ("C09.3", "BlockStatement(parallel)"), ("C09",)),
    fire("c09-output-parser-skips-subcircuits",
         [(RES, "    circuit = expand_macros(fill_in_let(expand_subcircuits(circuit)))", "    circuit = expand_macros(fill_in_let(circuit))")],
         ("C09.4", "parse_jaqal_output_list"), ("C09",)),
    fire("c09-run-skips-let",
         [(RUN, "    expanded = expand_macros(fill_in_let(expand_subcircuits(circuit)))", "    expanded = expand_macros(expand_subcircuits(circuit))")],
         ("C09.4", "run_jaqal_circuit"), ("C09",)),
    fire("c09-native-before-user",
         [(ES, "    if not isinstance(user_def, str) and user_def is not None:\n        return user_def\n\n    if isinstance(user_def, str):\n        name = user_def\n    else:\n        name = default_name\n\n    try:\n        return circuit.native_gates[name]\n    except KeyError:\n        pass\n",
           "    if isinstance(user_def, str):\n        name = user_def\n    else:\n        name = default_name\n\n    try:\n        return circuit.native_gates[name]\n    except KeyError:\n        pass\n\n    if not isinstance(user_def, str) and user_def is not None:\n        return user_def\n")],
         ("C09.5", "definition-choice"), ("C09",)),
    silent("c09-concat-shape",
           [(ES, "        statements = [\n            self.prepare_def(),\n            *(self.visit(stmt) for stmt in block.statements),\n            self.measure_def(),\n        ]",
             "        body = [self.visit(stmt) for stmt in block.statements]\n        statements = [self.prepare_def()] + body + [self.measure_def()]")], ("C09",)),
    # ---- C19
    fire("c19-normalizer-drops-subcircuit",
         [(UT, "            subcircuit=obj.subcircuit,\n            iterations=obj.iterations,\n", "")],
         ("C19.1", "BlockStatement.subcircuit"), ("C19",)),
    fire("c19-unroll-dissolves-subcircuits",
         [(UT, "        if obj.parallel or obj.subcircuit:", "        if obj.parallel:")],
         ("C19.1", "dissolve-obj"), ("C19",)),
    fire("c19-drops-usepulses",
         [(UT, "        new_circuit.usepulses.extend(circuit.usepulses)\n", "")],
         ("C19.1", "Circuit.usepulses"), ("C19",)),
    fire("c19-chunk-drops-gates-after-block",
         [(UT, "                else:\n                    chunk.append(stmt)\n", "                elif not chunk:\n                    chunk.append(stmt)\n")],
         ("C19.2", "iter_chunk_blocks"), ("C19",)),
    fire("c19-unroll-skips-last",
         [(UT, "            for stmt in obj.statements:\n                yield stmt", "            for stmt in obj.statements:\n                if stmt is obj.statements[-1]:\n                    continue\n                yield stmt")],
         ("C19.2", "UnrollIterator.visit_BlockStatement"), ("C19",)),
    fire("c19-no-loop-guard",
         [(UT, "                if isinstance(stmt, LoopStatement):\n                    raise JaqalError(", "                if False:\n                    raise JaqalError(")],
         ("C19.3", "loop-guard"), ("C19",)),
    silent("c19-filter-comprehension",
           [(UT, "            non_none = list(filter(lambda x: x is not None, ch))", "            non_none = [x for x in ch if x is not None]")], ("C19",)),
    silent("c19-none-continue",
           [(UT, "            non_none = list(filter(lambda x: x is not None, ch))\n            chunk = []\n            for stmt in non_none:\n",
             "            chunk = []\n            for stmt in ch:\n                if stmt is None:\n                    continue\n")], ("C19",)),
]

UT19 = "src/jaqalpaq/core/algorithm/unit_timing.py"
VARIANTS += [
    # reverting fix 051a4fe
    fire("c19-normalizer-skips-loops",
         [(UT19, "    def visit_LoopStatement(self, obj):\n        \"\"\"A loop keeps its count; its body is normalized like any block.\"\"\"\n        return LoopStatement(obj.iterations, self.visit(obj.statements))\n\n", "")],
         ("C19.6", "LoopStatement.statements:visited"), ("C19",)),
    fire("c19-normalizer-loop-count-constant",
         [(UT19, "        return LoopStatement(obj.iterations, self.visit(obj.statements))", "        return LoopStatement(1, self.visit(obj.statements))")],
         ("*", "LoopStatement"), ("C19",)),
]
