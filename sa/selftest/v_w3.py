"""Variants for the rules added after the third wave of defect hunts: each
must-fire variant reverts one repair of the repository (or breaks the repaired
code another way); the silent ones are behaviour-preserving rewrites."""
from .v_c04 import fire, silent

GD = "src/jaqalpaq/core/gatedef.py"
ST = "src/jaqalpaq/core/stretch.py"
CB = "src/jaqalpaq/core/circuitbuilder.py"
PA = "src/jaqalpaq/core/parameter.py"
FL = "src/jaqalpaq/core/algorithm/fill_in_let.py"
ES = "src/jaqalpaq/core/algorithm/expand_subcircuits.py"
UQ = "src/jaqalpaq/core/algorithm/used_qubit_visitor.py"
WK = "src/jaqalpaq/core/algorithm/walkers.py"
IPC = "src/jaqalpaq/ipc/ipc.py"
BE = "src/jaqalpaq/emulator/backend.py"
RS = "src/jaqalpaq/core/result.py"
GE = "src/jaqalpaq/generator/generator.py"
UT = "src/jaqalpaq/utilities.py"
RG = "src/jaqalpaq/core/register.py"

VARIANTS = [
    # ---- C18
    fire("w3-call-receiver-capturable",
         [(GD, "    def call(self, /, *args, **kwargs):", "    def call(self, *args, **kwargs):")],
         ("C18.5", "AbstractGate.call:receiver"), ("C18",)),
    fire("w3-dunder-call-receiver-capturable",
         [(GD, "    def __call__(self, /, *args, **kwargs):", "    def __call__(self, *args, **kwargs):")],
         ("C18.5", "AbstractGate.__call__:receiver"), ("C18",)),
    fire("w3-stretch-name-constant",
         [(ST, '        stretch_name = "stretch"\n        while any(param.name == stretch_name for param in parameters):\n            stretch_name += "_"\n        parameters.append(Parameter(stretch_name, ParamType.FLOAT))',
           '        parameters.append(Parameter("stretch", ParamType.FLOAT))')],
         ("C18.6", "stretched_gates:appended-parameter-name"), ("C18",)),
    silent("w3-stretch-name-refused",
           [(ST, '        while any(param.name == stretch_name for param in parameters):\n            stretch_name += "_"\n',
             '        if any(param.name == stretch_name for param in parameters):\n            raise ValueError(f"{gate.name} already has a parameter {stretch_name}")\n')],
           ("C18",)),
    fire("w3-stretched-skip-by-plain-name",
         [(ST, "        if name + suffix in new_gates:", "        if name in new_gates:")],
         ("C18.7", "stretched_gates:membership:new_gates"), ("C18",)),
    fire("w3-memo-lookup-unguarded",
         [(CB, "        try:\n            gate = self._table.get(memo_key)\n        except TypeError:\n            # An argument that cannot be hashed (e.g. an array given to\n            # an untyped parameter) makes the gate unmemoizable; it is\n            # still a gate the definition gets to accept or reject.\n            return None, None\n",
           "        gate = self._table.get(memo_key)\n")],
         ("C18.8", "GateMemoizer.get:table-lookup"), ("C18",)),
    fire("w3-validate-one-level-constant",
         [(PA, "                and isinstance(_constant_value(value), Real)\n                and _constant_value(value).is_integer()\n",
           '                and isinstance(getattr(value, "value", None), float)\n                and value.value.is_integer()\n')],
         ("C18.9", "Parameter.validate:constant-of-constant"), ("C18",)),
    # ---- C05
    fire("w3-resolve-constant-one-level",
         [(FL, "        elif isinstance(const.value, Constant):\n            # A constant defined by another constant (only the builder can\n            # make one) has that constant's value, overrides included.\n            return self.resolve_constant(const.value)\n", "")],
         ("C05.13", "LetFiller.resolve_constant:constant-of-constant"), ("C05",)),
    # ---- C13
    fire("w3-body-statements-not-relinked",
         [(CB, "                obj = rebuild_statement_in_context(\n                    obj, context, gate_context, self.is_anonymous_gate_allowed()\n                )\n", "")],
         ("C13.8", "Builder.build_circuit:body-statement"), ("C13",)),
    fire("w3-relinker-skips-native-gates",
         [(CB, "            if gate_def is gate.gate_def:\n                return False, gate\n            # A statement built on its own (e.g. by CircuitBuilder.loop or\n            # CircuitBuilder.macro) has a made-up definition; link it to\n            # the definition the circuit knows by this name.\n            args = gate.parameters.values()\n            new_gate = gate_def(*args)\n            return True, new_gate\n",
           "            return False, gate\n")],
         ("C13.8", "RebuildMacroInContextVisitor.visit_GateStatement:unchanged-gate"), ("C13",)),
    fire("w3-fresh-bounding-gate-plain",
         [(ES, "from jaqalpaq.core.gatedef import BusyGateDefinition", "from jaqalpaq.core.gatedef import GateDefinition"),
          (ES, "    return BusyGateDefinition(name)", "    return GateDefinition(name)")],
         ("C13.9", "_choose_bounding_gate:fresh-definition"), ("C13",)),
    fire("w3-named-qubit-index-raw",
         [(UQ, "        reg, idx = obj.resolve_qubit(context)\n        if isinstance(idx, float) and idx.is_integer():\n            idx = int(idx)\n        return {reg.name: set((idx,))}",
           "        reg, idx = obj.resolve_qubit(context)\n        return {reg.name: set((idx,))}")],
         ("C13.10", "UsedQubitIndicesVisitor.visit_NamedQubit:index:idx"), ("C13",)),
    fire("w3-parallel-branches-share-state",
         [(WK, "            if block.parallel and not alone:\n                if before[0] is not self.current or before[1] != len(self.subcircuits):\n                    # Branches are simultaneous: whether the others come\n                    # before or after this one must not depend on the order\n                    # in which they are written.\n                    raise JaqalError(\n                        f\"{self.p_gate} and {self.m_gate} cannot be parallel to other statements\"\n                    )\n", "")],
         ("C13.11", "DiscoverSubcircuits.visit_BlockStatement:parallel-branches"), ("C13",)),
    fire("w3-parallel-state-check-on-sequential-only",
         [(WK, "            if block.parallel and not alone:\n                if before[0] is not self.current", "            if not alone:\n                if False and before[0] is not self.current")],
         ("C13.11", "DiscoverSubcircuits.visit_BlockStatement:parallel-branches"), ("C13",)),
    # ---- C15 / C08
    fire("w3-ipc-qubit-count-float",
         [(IPC, "    qubit_count = len(results[0]).bit_length() - 1", "    qubit_count = math.log2(len(results[0]))")],
         ("C15.10", "receive_response:IpcSubcircuit._qubit_count"), ("C15",)),
    silent("w3-ipc-qubit-count-int-of-log",
           [(IPC, "    qubit_count = len(results[0]).bit_length() - 1", "    qubit_count = int(round(math.log2(len(results[0]))))")],
           ("C15",)),
    fire("w3-execute-reuses-job-subcircuits",
         [(BE, "        subcircuits = [sc._without_readouts() for sc in self.subcircuits]\n", "        subcircuits = self.subcircuits\n")],
         ("*", "IndependentSubcircuitsJob.execute"), ("C15", "C08")),
    fire("w3-per-execution-copy-shares-readouts",
         [(RS, "        new._readouts = []\n", "")],
         ("*", "ReadoutSubcircuit._without_readouts:resets"), ("C15", "C08")),
    fire("w3-outcome-not-normalised",
         [(RS, "        else:\n            # A plain integer, whatever integer-like type the data came in\n            nxt = operator.index(nxt)\n", "")],
         ("C15.12", "OutputParser.process_trace:outcome"), ("C15",)),
    silent("w3-outcome-normalised-by-int",
           [(RS, "            nxt = operator.index(nxt)\n", "            nxt = int(nxt)\n")],
           ("C15",)),
    # ---- C01
    fire("w3-value-writer-falls-through",
         [(GE, '    raise JaqalError(f"Cannot write {val!r} as a Jaqal value")\n', "")],
         ("C01.11", "generate_jaqal_value:falls-through"), ("C01",)),
    fire("w3-value-writer-builtin-numbers-only",
         [(GE, "    if isinstance(val, bool) or not isinstance(val, (int, float)):\n        if isinstance(val, Integral):\n            val = int(val)\n        elif isinstance(val, Real):\n            val = float(val)\n", "")],
         ("C01.11", "generate_jaqal_value:number-types"), ("C01",)),
    fire("w3-subcircuit-not-reserved",
         [(UT, '    "subcircuit",\n', "")],
         ("C01.12", "keyword:subcircuit"), ("C01",)),
    fire("w3-branch-not-reserved",
         [(UT, '    "branch",\n', "")],
         ("C01.12", "keyword:branch"), ("C01",)),
    fire("w3-macro-call-nesting-unchecked",
         [(CB, '        if self.is_in_block_context(\n            context, ["subcircuit", "parallel"]\n        ) and contains_subcircuit(gate, self.subcircuit_memo):\n            # The call stands for the macro\'s body\n            raise JaqalError("Nesting subcircuit in subcircuit or parallel block")\n', "")],
         ("C01.13", "Builder.build_gate:nesting-check"), ("C01",)),
    # ---- C20
    fire("w3-register-eq-recursive",
         [(RG, "                if mine.alias_slice != theirs.alias_slice:\n                    return False\n                mine, theirs = mine.alias_from, theirs.alias_from\n                if not (isinstance(mine, Register) and isinstance(theirs, Register)):\n                    return mine == theirs\n",
           "                return (\n                    mine.alias_from == theirs.alias_from\n                    and mine.alias_slice == theirs.alias_slice\n                )\n")],
         ("C20.8", "Register.__eq__:alias-chain"), ("C20",)),
]
