"""Variants for C17."""
from .v_c04 import fire, silent

QS = "src/jaqalpaq/qsyntax/qsyntax.py"
CB = "src/jaqalpaq/core/circuitbuilder.py"
SL = "src/jaqalpaq/parser/slyparse.py"
FM = "src/jaqalpaq/core/algorithm/fill_in_map.py"
P = ("C17",)

VARIANTS = [
    fire("c17-default-and-argument-both", [(QS, "                ret.append(self.default_argument)\n            else:\n                ret.append(lookup_object(self.argument))", "                ret.append(self.default_argument)\n            ret.append(lookup_object(self.argument))")], ("C17.1", "QBlock.build:default-argument"), P),
    fire("c17-parser-loop-extra-element", [(SL, '        return ["loop", tree.let_or_int, tree.gate_block]', '        return ["loop", tree.let_or_int, tree.gate_block, None]')], ("C17.1", "emits:loop"), P),
    fire("c17-q-register-missing-size", [(QS, '        sexpr.append(["register", name, lookup_object(reg.size)])', '        sexpr.append(["register", name])')], ("C17.1", "emits:register"), P),
    fire("c17-consumer-renamed", [(CB, "    def build_usepulses(self, sexpression, context, gate_context):", "    def build_use_pulses(self, sexpression, context, gate_context):")], ("C17.1", "emits:usepulses"), P),
    fire("c17-oo-map-slice-arity", [(CB, '            register = ("map", name, source, idxs.start, idxs.stop, idxs.step)', '            register = ("map", name, source, idxs.start, idxs.stop)')], ("C17.1", "emits:map"), P),
    fire("c17-mapfiller-subcircuit-without-count", [(FM, '                "subcircuit_block",\n                block.iterations,\n', '                "subcircuit_block",\n')], ("C10.4", "BlockStatement.iterations"), ("C10",)),
    fire("c17-dead-iterations-parameter", [(CB, "        builder = SubcircuitBlockBuilder(iterations)", "        builder = SubcircuitBlockBuilder()")], ("C17.2", "BlockBuilder.subcircuit:param:iterations"), P),
    fire("c17-q-register-name-ignored", [(QS, "        reg = QRegister(size, name=name)", "        reg = QRegister(size)")], ("C17.2", "Q.register:param:name"), P),
    fire("c17-namer-one-namespace", [(QS, "            self.let_template, self.next_let, self.let_names + self.register_names", "            self.let_template, self.next_let, self.let_names")], ("C17.3", "Namer.name_let"), P),
    fire("c17-measure-unguarded", [(QS, "    if do_implicit_measure:\n        sexpr.append(measure_gate.build(lookup_object))", "    sexpr.append(measure_gate.build(lookup_object))")], ("C17.5", "implicit-bracketing"), P),
    fire("c17-subcircuit-wrapped-again", [(QS, "    def starts_with_prepare(self, _name):\n        return True", "    def starts_with_prepare(self, _name):\n        return False")], ("C17.5", "starts_with_prepare"), P),
    silent("c17-default-early-continue", [(QS, "                ret.append(self.default_argument)\n            else:\n                ret.append(lookup_object(self.argument))", "                argument = self.default_argument\n            else:\n                argument = lookup_object(self.argument)\n            ret.append(argument)")], P),
]

QS17 = "src/jaqalpaq/qsyntax/qsyntax.py"
VARIANTS += [
    # reverting fix 7b8c785
    fire("c17-qsyntax-probes-with-importlib",
         [(QS17, "                get_jaqal_gates(module)\n", "                importlib.import_module(module)\n")],
         ("C17.8", "circuit_from_stack:direct-import"), ("C17",)),
]
