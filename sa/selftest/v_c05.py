"""Variants for C05 (let substitution)."""
from .v_c04 import fire, silent

FL = "src/jaqalpaq/core/algorithm/fill_in_let.py"
P = ("C05",)

VARIANTS = [
    fire("c05-loop-count-not-resolved",
         [(FL, '        sexpr = ["loop", self.visit(loop.iterations), self.visit(loop.statements)]', '        sexpr = ["loop", loop.iterations, self.visit(loop.statements)]')],
         ("C05.1", "LoopStatement.iterations"), P),
    fire("c05-subcircuit-count-not-resolved",
         [(FL, '                self.visit(block.iterations),\n', '                block.iterations,\n')],
         ("C05.1", "BlockStatement.iterations"), P),
    fire("c05-slice-step-not-resolved",
         [(FL, "                    self.visit(reg.alias_slice.step),", "                    reg.alias_slice.step,")],
         ("C05.1", "Register.alias_slice.step"), P),
    fire("c05-block-kind-lost",
         [(FL, '        if block.parallel:\n            block_type = "parallel_block"\n        else:\n            block_type = "sequential_block"\n\n        sexpr = [block_type, *[self.visit(stmt) for stmt in block.statements]]',
           '        block_type = "sequential_block"\n\n        sexpr = [block_type, *[self.visit(stmt) for stmt in block.statements]]')],
         ("C05.3", "BlockStatement.parallel"), P),
    fire("c05-macros-dropped",
         [(FL, "            *macros,\n", "")],
         ("C05.3", "Circuit.macros"), P),
    fire("c05-override-after-declared",
         [(FL, "        if const.name in self.override_dict:\n            value = self.override_dict[const.name]\n            if isinstance(value, float) and not math.isfinite(value):\n                # Infinity and NaN cannot be written in Jaqal\n                raise JaqalError(f\"Cannot override {const.name} with {value}\")\n            # Like a declared value, 4.0 stands for the integer 4\n            return circuitbuilder.as_integer(value)\n        if isinstance(const.value, (int, float)):\n            return const.value\n",
           "        if isinstance(const.value, (int, float)):\n            return const.value\n        if const.name in self.override_dict:\n            return self.override_dict[const.name]\n")],
         ("C05.2", "override-precedence"), P),
    fire("c05-override-keyed-by-value",
         [(FL, "        if const.name in self.override_dict:\n            value = self.override_dict[const.name]\n            if isinstance(value, float) and not math.isfinite(value):\n                # Infinity and NaN cannot be written in Jaqal\n                raise JaqalError(f\"Cannot override {const.name} with {value}\")\n            # Like a declared value, 4.0 stands for the integer 4\n            return circuitbuilder.as_integer(value)", "        if const.value in self.override_dict:\n            return self.override_dict[const.value]")],
         ("C05.2", "override-precedence"), P),
    fire("c05-register-handler-returns-sexpr",
         [(FL, "                return Register(reg.name, new_size)", '                return ["register", reg.name, new_size]')],
         ("C05.4", "visit_Register"), P),
    fire("c05-parameters-resolved-like-constants",
         [(FL, "    def visit_Constant(self, const):\n        return self.resolve_constant(const)\n", "    def visit_AnnotatedValue(self, const):\n        return self.resolve_constant(const)\n")],
         ("C05.5", "shadowing"), P),
    fire("c05-macro-body-not-visited",
         [(FL, "        gate_block = self.visit(macro.body)\n        sexpr = [\n            \"macro\",\n            macro.name,\n            *macro.parameters,",
           "        gate_block = macro.body\n        sexpr = [\n            \"macro\",\n            macro.name,\n            *macro.parameters,")],
         ("C05.5", "visit_Macro"), P),
    fire("c05-gate-args-not-visited",
         [(FL, "        arguments = [self.visit(param) for param in gate.parameters.values()]", "        arguments = list(gate.parameters.values())")],
         ("C05.1", "GateStatement.parameters"), P),
    silent("c05-get-idiom",
           [(FL, "        if const.name in self.override_dict:\n            value = self.override_dict[const.name]\n            if isinstance(value, float) and not math.isfinite(value):\n                # Infinity and NaN cannot be written in Jaqal\n                raise JaqalError(f\"Cannot override {const.name} with {value}\")\n            # Like a declared value, 4.0 stands for the integer 4\n            return circuitbuilder.as_integer(value)\n        if isinstance(const.value, (int, float)):\n            return const.value\n        elif isinstance(const.value, Constant):\n            # A constant defined by another constant (only the builder can\n            # make one) has that constant's value, overrides included.\n            return self.resolve_constant(const.value)\n        else:\n            raise JaqalError(f\"Constant {const.name} has non-numeric value\")",
             "        if const.name not in self.override_dict and isinstance(const.value, Constant):\n            return self.resolve_constant(const.value)\n        value = self.override_dict.get(const.name, const.value)\n        if isinstance(value, float) and not math.isfinite(value):\n            raise JaqalError(\"not finite\")\n        return circuitbuilder.as_integer(value)")], P),
    silent("c05-not-in-idiom",
           [(FL, "        if const.name in self.override_dict:\n            value = self.override_dict[const.name]\n            if isinstance(value, float) and not math.isfinite(value):\n                # Infinity and NaN cannot be written in Jaqal\n                raise JaqalError(f\"Cannot override {const.name} with {value}\")\n            # Like a declared value, 4.0 stands for the integer 4\n            return circuitbuilder.as_integer(value)\n        if isinstance(const.value, (int, float)):\n            return const.value\n",
             "        if const.name not in self.override_dict:\n            if isinstance(const.value, (int, float)):\n                return const.value\n        else:\n            value = self.override_dict[const.name]\n            if isinstance(value, float) and not math.isfinite(value):\n                raise JaqalError(\"not finite\")\n            return circuitbuilder.as_integer(value)\n        if False:\n            pass\n")], P),
    silent("c05-helper-for-children",
           [(FL, '        sexpr = [block_type, *[self.visit(stmt) for stmt in block.statements]]\n        return sexpr',
             '        children = []\n        for stmt in block.statements:\n            children.append(self.visit(stmt))\n        sexpr = [block_type]\n        sexpr.extend(children)\n        return sexpr')], P),
]

VARIANTS += [
    # reverting fix 64198ea
    fire("c05-override-not-normalised",
         [(FL, "            return circuitbuilder.as_integer(value)", "            return value")],
         ("C05.10", "LetFiller.resolve_constant:override-normalised"), ("C05",)),
    fire("c05-override-cast-to-int",
         [(FL, "            return circuitbuilder.as_integer(value)", "            return int(value)")],
         ("C05.2", "LetFiller.resolve_constant:override-precedence"), ("C05",)),
]
VARIANTS += [
    # reverting fix 5ba19ee
    fire("c05-override-non-finite-accepted",
         [(FL, "            if isinstance(value, float) and not math.isfinite(value):\n                # Infinity and NaN cannot be written in Jaqal\n                raise JaqalError(f\"Cannot override {const.name} with {value}\")\n", "")],
         ("C05.11", "LetFiller.resolve_constant:override-finite"), ("C05",)),
]
