"""Variants for C16."""
from .v_c04 import fire, silent

SL = "src/jaqalpaq/parser/slyparse.py"
BE = "src/jaqalpaq/emulator/backend.py"
IM = "src/jaqalpaq/_import.py"
RUN = "src/jaqalpaq/run/run.py"
QS = "src/jaqalpaq/qsyntax/qsyntax.py"
CB = "src/jaqalpaq/core/circuitbuilder.py"
RG = "src/jaqalpaq/core/register.py"
WK = "src/jaqalpaq/core/algorithm/walkers.py"
PA = "src/jaqalpaq/parser/parser.py"
P = ("C16",)

VARIANTS = [
    fire("c16-backend-notimplemented",
         [(BE, "            raise JaqalError(\n                f\"Circuit must have exactly one fundamental register, found {len(registers)}\"\n            )", "            raise NotImplementedError(\"Multiple fundamental registers unsupported.\")")],
         ("C16.1", "get_n_qubits:raise:NotImplementedError"), P),
    fire("c16-builder-valueerror",
         [(CB, '        raise JaqalError(f"Wrong number of arguments for map, found {args}")', '        raise ValueError(f"Wrong number of arguments for map, found {args}")')],
         ("C16.1", "build_map:raise:ValueError"), P),
    fire("c16-register-indexerror",
         [(RG, '        if idx < 0 or (size is not None and idx >= int(size)):\n            raise JaqalError("Index out of range.")', '        if idx < 0 or (size is not None and idx >= int(size)):\n            raise IndexError("Index out of range.")')],
         ("C16.1", "resolve_qubit:raise:IndexError"), P),
    fire("c16-header-done-not-caught",
         [(PA, "    except HeaderParsingDone:\n        pass\n    finally:", "    finally:")],
         ("C16.1", "raise:HeaderParsingDone"), P),
    fire("c16-walker-runtimeerror",
         [(WK, '            raise JaqalError("measure_all -> prepare_all not supported in loops")', '            raise RuntimeError("measure_all -> prepare_all not supported in loops")')],
         ("C16.1", "raise:RuntimeError"), P),
    fire("c16-no-lexer-error-hook",
         [(SL, '    def error(self, token):\n        """Standard callback by the lexer for illegal characters."""\n        col = self.index - self.text.rfind("\\n", 0, self.index)\n        raise JaqalParseError(\n            "<string>", self.lineno, col, f"Illegal character {token.value[0]!r}"\n        )\n', "")],
         ("C16.2", "JaqalLexer:error"), P),
    fire("c16-lexer-error-skips",
         [(SL, '        raise JaqalParseError(\n            "<string>", self.lineno, col, f"Illegal character {token.value[0]!r}"\n        )\n', '        self.index += 1\n')],
         ("C16.2", "JaqalLexer:error"), P),
    fire("c16-parser-error-none-deref",
         [(SL, '            msg = "Unexpected end of input"\n', '            msg = f"Unexpected end of input after {token.value}"\n')],
         ("C16.3", "none-guard:token"), P),
    fire("c16-importlib-util-not-imported",
         [(IM, "import sys, importlib, importlib.util, os", "import sys, importlib, os")],
         ("C16.5", "submodule:importlib.util"), P),
    fire("c16-unbound-name",
         [(RUN, "        return jaqalpaq.ipc.ipc.run_jaqal_circuit(circuit)", "        return jaqalpaq.ipc.ipc.run_jaqal_circuit(circuit, **kwargs)")],
         ("C16.5", "unbound:kwargs"), P),
    fire("c16-import-statement-no-position",
         [(SL, "        self.set_pos(tree)\n        self.raise_error(f\"Import statement not yet implemented\")", "        self.raise_error(f\"Import statement not yet implemented\")")],
         ("C16.7", "import_statement:error-position"), P),
    fire("c16-register-statement-no-position",
         [(SL, "    def register_statement(self, tree):\n        self.set_pos(tree)\n", "    def register_statement(self, tree):\n")],
         ("C16.7", "error-position"), P),
    fire("c16-init-classmethod",
         [(QS, "class QUsePulses:\n    def __init__(self, module, names):", "class QUsePulses:\n    @classmethod\n    def __init__(self, module, names):")],
         ("C16.8", "init-decorated"), P),
    fire("c16-mutable-default-accumulates",
         [(PA, "def parse_to_sexpression(jaqal, return_usepulses=False, header_only=False):", "def parse_to_sexpression(jaqal, return_usepulses=False, header_only=False, _seen=[]):\n    _seen.append(jaqal)")],
         ("C16.8", "mutable-default"), P),
    fire("c16-module-level-cache",
         [(PA, "def parse_to_sexpression(jaqal, return_usepulses=False, header_only=False):", "_CACHE = {}\n\n\ndef parse_to_sexpression(jaqal, return_usepulses=False, header_only=False):\n    _CACHE[jaqal] = True")],
         ("C16.8", "module-state:_CACHE"), P),
    silent("c16-raise-subclass-of-jaqalerror",
           [(CB, '        raise JaqalError(f"Wrong number of arguments for map, found {args}")', '        from jaqalpaq.parser.slyparse import JaqalParseError\n        raise JaqalParseError("<builder>", 0, 0, f"Wrong number of arguments for map, found {args}")')], P),
    silent("c16-catch-and-convert",
           [(RG, '        if idx < 0 or (size is not None and idx >= int(size)):\n            raise JaqalError("Index out of range.")', '        try:\n            if idx < 0 or (size is not None and idx >= int(size)):\n                raise IndexError("Index out of range.")\n        except IndexError as ex:\n            raise JaqalError("Index out of range.") from ex')], P),
]

VARIANTS += [
    fire("c16-loop-without-progress",
         [(RG, "        while isinstance(alias_from, AnnotatedValue):\n            alias_from = alias_from.resolve_value(context)\n        if self.alias_slice is None:", "        while isinstance(alias_from, AnnotatedValue):\n            alias_from.resolve_value(context)\n        if self.alias_slice is None:")],
         ("C16.11", "Register.resolve_size:while"), P),
    fire("c16-comment-regex-exponential",
         [(SL, 'ignore_multiline_comment = r"/\\*([^*]|\\*+[^*/])*\\*+/"', 'ignore_multiline_comment = r"/\\*([^*]+|\\*+[^*/])*\\*+/"')],
         ("C16.9", "ignore_multiline_comment:repetition"), P),
    fire("c16-class-level-results",
         [(BE, "        super().__init__(traces)\n        self.results = []\n        self.readout_index = 0\n", "        super().__init__(traces)\n"),
          (BE, "class IndependentSubcircuitsEmulatorWalker(TraceVisitor):\n", "class IndependentSubcircuitsEmulatorWalker(TraceVisitor):\n    results = []\n    readout_index = 0\n\n")],
         ("C16.8", "class-state:results"), P),
    fire("c16-guard-before-strip",
         [(IM, "    if not mod_name:\n        raise ImportError(\"Module name may not be empty\")\n\n    module = sys.modules.get(mod_name)", "    module = sys.modules.get(mod_name)"),
          (IM, "    assert reload_module in (True, False, \"relative_only\")\n", "    assert reload_module in (True, False, \"relative_only\")\n\n    if not mod_name:\n        raise ImportError(\"Module name may not be empty\")\n")],
         ("C16.10", "emptiness-guard:mod_name"), P),
]

VARIANTS += [
    fire("c16-or-default-index",
         [(SL, "        if index is None:\n            index = self._last_index\n", "        index = index or self._last_index\n")],
         ("C16.7", "compute_col:or-default:index"), P),
]

RG = "src/jaqalpaq/core/register.py"
CBD = "src/jaqalpaq/core/circuitbuilder.py"
VARIANTS += [
    # reverting fix 7af6bac
    fire("c16-resolve-size-zero-step-unchecked",
         [(RG, '        if step == 0:\n            raise JaqalError("Slice step cannot be zero.")\n        try:', "        try:")],
         ("C16.12", "Register.resolve_size:range-step"), ("C16",)),
    # reverting fix 8a1e340
    fire("c16-build-map-size-of-any-entity",
         [(CBD, '                if not isinstance(src, Register):\n                    raise JaqalError(\n                        f"Cannot slice {src_name}: it is not a register"\n                    )\n                if src.fundamental:', "                if src.fundamental:")],
         ("C16.14", "Builder.build_map:context-entity:src.size"), ("C16",)),
    # narrowing away OverflowError is harmless while the lexer rejects non-finite literals (int() of program values cannot overflow) ...
    silent("c16-as-integer-handler-narrowed",
           [(CBD, "    except Exception:\n        # The value wasn't even numeric.", "    except (TypeError, ValueError, JaqalError):\n        # The value wasn't even numeric.")], ("C16",)),
    # ... narrowing away ValueError is not
    fire("c16-as-integer-handler-narrowed-too-far",
         [(CBD, "    except Exception:\n        # The value wasn't even numeric.", "    except (TypeError, JaqalError):\n        # The value wasn't even numeric.")],
         ("C16.13", "as_integer:conversion-handler"), ("C16",)),
    silent("c16-as-integer-handler-explicit-complete",
           [(CBD, "    except Exception:\n        # The value wasn't even numeric.", "    except (TypeError, ValueError, OverflowError, JaqalError):\n        # The value wasn't even numeric.")], ("C16",)),
    silent("c16-range-step-guard-other-spelling",
           [(RG, '        if step == 0:\n            raise JaqalError("Slice step cannot be zero.")\n        try:', '        if 0 == step:\n            raise JaqalError("Slice step cannot be zero.")\n        try:')], ("C16",)),
]

WKR = "src/jaqalpaq/core/algorithm/walkers.py"
VARIANTS += [
    # reverting fix a34ba74
    fire("c16-zero-count-loop-not-skipped",
         [(WKR, "        if loop.iterations <= 0:\n", "        if False:\n")],
         ("C16.15", "TraceVisitor.visit_LoopStatement:zero-trip"), ("C16",)),
    silent("c16-zero-count-loop-other-spelling",
           [(WKR, "        if loop.iterations <= 0:\n", "        if loop.iterations < 1:\n")], ("C16",)),
]

IMPF = "src/jaqalpaq/_import.py"
VARIANTS += [
    # reverting fix 50f0535 (evictions not restored)
    fire("c16-evicted-modules-not-restored",
         [(IMPF, "            for k, v in evicted.items():\n                sys.modules.setdefault(k, v)\n            raise", "            raise")],
         ("C16.32", "jaqal_import:after-eviction:importlib.import_module"), ("C16",)),
    fire("c16-half-initialised-module-left",
         [(IMPF, "        if sys.modules.get(mod_name) is module:\n            del sys.modules[mod_name]\n        raise", "        raise")],
         ("*", "_import"), ("C16",)),
]

PPY = "src/jaqalpaq/parser/parser.py"
RUNPY = "src/jaqalpaq/run/run.py"
SLY = "src/jaqalpaq/parser/slyparse.py"
VARIANTS += [
    # reverting fix f20c39c at one entry point
    fire("c16-parse-entry-without-recursion-guard",
         [(PPY, "@nesting_guard\ndef parse_jaqal_string(", "def parse_jaqal_string(")],
         ("C16.17", "parse_jaqal_string:recursion-guard"), ("C16",)),
    fire("c16-run-entry-without-recursion-guard",
         [(RUNPY, "@nesting_guard\ndef run_jaqal_circuit(", "def run_jaqal_circuit(")],
         ("C16.17", "recursion-guard"), ("C16",)),
    # reverting fix c45a6af
    fire("c16-lexer-int-unguarded-handler-dropped",
         [(SLY, "        except ValueError:\n            # Python refuses to convert digit strings beyond a length limit", "        except TypeError:\n            # Python refuses to convert digit strings beyond a length limit")],
         ("C16.13", "JaqalLexer.INT:conversion-handler"), ("C16",)),
]

RG16 = "src/jaqalpaq/core/register.py"
VARIANTS += [
    # reverting fix 3880ead
    fire("c16-eof-error-without-position",
         [(SLY, '            text = self._source_text or ""\n            line = text.count("\\n") + 1\n            col = len(text) - (text.rfind("\\n") + 1) + 1\n', '            line = "EOF"\n            col = 0\n')],
         ("C16.7", "JaqalParser.error:position-on-every-path"), ("C16",)),
    # reverting fix dddb8af
    fire("c16-module-directory-not-checked-for-init",
         [(IMPF, '    if (try_directory / "__init__.py").is_file():\n', "    if try_directory.is_dir():\n")],
         ("C16.20", "path-tested:spec_from_file_location"), ("C16",)),
    fire("c16-import-path-not-checked",
         [(IMPF, '    if not Path(search_path).is_dir():\n        raise ImportError(f"Unable to find module {mod_name}")\n\n', "")],
         ("C16.20", "path-tested:listdir"), ("C16",)),
]

ES16 = "src/jaqalpaq/core/algorithm/expand_subcircuits.py"
VARIANTS += [
    fire("c16-none-branch-use",
         [(ES16, "        if new_def is not None and isinstance(gate.gate_def, Macro):", "        if new_def is None and isinstance(gate.gate_def, Macro):")],
         ("C16.3", "SubcircuitExpander.visit_GateStatement:none-branch-use:new_def"), ("C16",)),
]

UN16 = "src/jaqalpaq/emulator/unitary.py"
FL16 = "src/jaqalpaq/core/algorithm/fill_in_let.py"
VARIANTS += [
    # reverting the overflow fix
    fire("c16-len-of-range-unprotected",
         [(RG16, "        try:\n            return len(range(start, stop, step))\n        except OverflowError as exc:\n            raise JaqalError(\"Slice bounds are out of range.\") from exc\n", "        return len(range(start, stop, step))\n")],
         ("C16.21", "Register.resolve_size:len-of-range"), ("C16",)),
    fire("c16-len-of-range-in-init",
         [(RG16, "                if indices and (\n", "                if len(indices) > 0 and (\n")],
         ("*", "Register.__init__"), ("C16",)),
    # reverting fix 23288a1
    fire("c16-gate-table-lookup-unprotected",
         [(UN16, "            try:\n                gatedef = gatedefs[gate.name]\n            except KeyError:\n                if isinstance(gate.gate_def, BusyGateDefinition):\n                    # A bounding gate that expand_subcircuits made up for a\n                    # gate set without one: it has no unitary\n                    continue\n                raise JaqalError(f\"No native gate {gate.name} to emulate\") from None\n", "            gatedef = gatedefs[gate.name]\n")],
         ("C16.21", "gate-table-lookup"), ("C16",)),
    # reverting fix 25182b6
    fire("c16-probe-oserror-escapes",
         [(IMPF, "    try:\n        return _jaqal_probe_spec_relative(mod_name, search_path)\n    except OSError as exc:\n        # E.g. a name too long for the file system: there is no such module\n        raise ImportError(f\"Unable to find module {mod_name}\") from exc\n", "    return _jaqal_probe_spec_relative(mod_name, search_path)\n")],
         ("C16.21", "probe-oserror-converted"), ("C16",)),
]
