"""Variants from the survivors of the sixth mutation sweep."""
from .v_c04 import fire, silent

WK = "src/jaqalpaq/core/algorithm/walkers.py"
FM = "src/jaqalpaq/core/algorithm/fill_in_map.py"
RS = "src/jaqalpaq/core/result.py"
RG = "src/jaqalpaq/core/register.py"
CB = "src/jaqalpaq/core/circuitbuilder.py"
GD = "src/jaqalpaq/core/gatedef.py"
ID = "src/jaqalpaq/core/identifier.py"
GE = "src/jaqalpaq/generator/generator.py"
UN = "src/jaqalpaq/emulator/unitary.py"

VARIANTS = [
    # ---- C06
    fire("s4-dependence-chain-never-walked",
         [(FM, "    while obj is not None:", "    while obj is None:")],
         ("C06.20", "_depends_on_parameter:chain-walk"), ("C06",)),
    silent("s4-dependence-chain-walk-rewritten",
           [(FM, "    while obj is not None:", "    while not (obj is None):")],
           ("C06",)),
    # ---- C08 / C15
    fire("s4-trace-walk-returns-when-there-are-traces",
         [(WK, "        if len(self.traces) == 0:\n            return\n", "        if not (len(self.traces) == 0):\n            return\n")],
         ("*", "TraceVisitor.visit_Circuit:no-traces"), ("C08", "C15")),
    fire("s4-trace-walk-returns-when-nonempty",
         [(WK, "        if len(self.traces) == 0:\n            return\n", "        if len(self.traces) != 0:\n            return\n")],
         ("*", "TraceVisitor.visit_Circuit:no-traces"), ("C08", "C15")),
    silent("s4-trace-walk-truthiness",
           [(WK, "        if len(self.traces) == 0:\n            return\n", "        if not self.traces:\n            return\n")],
           ("C08", "C15")),
    # ---- C13
    fire("s4-busy-for-every-other-name",
         [(CB, '        if name in ("prepare_all", "measure_all") and arg_count == 0:', '        if name not in ("prepare_all", "measure_all") and arg_count == 0:')],
         ("C13.24", "Builder.get_gate_definition:made-up-bounding-condition"), ("C13",)),
    fire("s4-busy-only-with-arguments",
         [(CB, '        if name in ("prepare_all", "measure_all") and arg_count == 0:', '        if name in ("prepare_all", "measure_all") and arg_count != 0:')],
         ("C13.24", "Builder.get_gate_definition:made-up-bounding-condition"), ("C13",)),
    fire("s4-busy-for-one-argument",
         [(CB, '        if name in ("prepare_all", "measure_all") and arg_count == 0:', '        if name in ("prepare_all", "measure_all") and arg_count == 1:')],
         ("C13.24", "Builder.get_gate_definition:made-up-bounding-condition"), ("C13",)),
    fire("s4-busy-for-any-argumentless-gate",
         [(CB, '        if name in ("prepare_all", "measure_all") and arg_count == 0:', '        if name in ("prepare_all", "measure_all") or arg_count == 0:')],
         ("C13.24", "Builder.get_gate_definition:made-up-bounding-condition"), ("C13",)),
    silent("s4-busy-whatever-the-arguments",
           [(CB, '        if name in ("prepare_all", "measure_all") and arg_count == 0:', '        if name in ("prepare_all", "measure_all"):')],
           ("C13",)),
    fire("s4-relinked-branch-loses-cases",
         [(CB, "            return changed, BranchStatement(cases=new_cases)", "            return changed, BranchStatement()")],
         ("C13.25", "RebuildMacroInContextVisitor.visit_BranchStatement:rebuilt:BranchStatement"), ("C13",)),
    fire("s4-relinked-block-loses-count",
         [(CB, "                subcircuit=block.subcircuit,\n                iterations=block.iterations,\n                statements=new_statements,\n            )\n        else:\n            return changed, block",
           "                subcircuit=block.subcircuit,\n                statements=new_statements,\n            )\n        else:\n            return changed, block")],
         ("C13.25", "RebuildMacroInContextVisitor.visit_BlockStatement:rebuilt:BlockStatement"), ("C13",)),
    # ---- C01
    fire("s4-identifier-regex-only",
         [(ID, "    return valid_identifier_regex.match(name) and name not in RESERVED_WORDS", "    return valid_identifier_regex.match(name)")],
         ("C01.17", "is_identifier_valid:reserved-words"), ("C01",)),
    fire("s4-value-writer-int-for-non-integral",
         [(GE, "        if isinstance(val, Integral):\n            val = int(val)", "        if not isinstance(val, Integral):\n            val = int(val)")],
         ("C01.18", "generate_jaqal_value:conversion:int"), ("C01",)),
    # ---- C18
    fire("s4-copy-name-when-absent",
         [(GD, "        if name is not None:\n            copy._name = name", "        if name is None:\n            copy._name = name")],
         ("C18.19", "AbstractGate.copy:override:name"), ("C18",)),
    fire("s4-copy-parameters-when-absent",
         [(GD, "        if parameters is not None:", "        if parameters is None:")],
         ("C18.19", "AbstractGate.copy:override:parameters"), ("C18",)),
    fire("s4-copy-unitary-when-absent",
         [(GD, "        if ideal_unitary is not None:", "        if not (ideal_unitary is not None):")],
         ("C18.19", "AbstractGate.copy:override:ideal_unitary"), ("C18",)),
    fire("s4-copy-unitary-never-stored",
         [(GD, "        if ideal_unitary is not None:\n            copy._ideal_unitary = ideal_unitary\n", "")],
         ("C18.19", "AbstractGate.copy:override:ideal_unitary"), ("C18",)),
    # ---- C15
    fire("s4-fails-below-the-cutoff",
         [(RS, "            if err > self.CUTOFF_FAIL:", "            if not (err > self.CUTOFF_FAIL):")],
         ("C15.18", "ProbabilisticSubcircuit.__init__:cutoff-fail-sense"), ("C15",)),
    fire("s4-warns-below-the-cutoff",
         [(RS, "        if err > self.CUTOFF_WARN:", "        if err < self.CUTOFF_WARN:")],
         ("C15.18", "ProbabilisticSubcircuit.__init__:cutoff-warn-sense"), ("C15",)),
    silent("s4-cutoff-inclusive",
           [(RS, "            if err > self.CUTOFF_FAIL:", "            if self.CUTOFF_FAIL <= err:")],
           ("C15",)),
    # ---- C16 / C03
    fire("s4-distinct-qubits-refused",
         [(UN, "len(set(qind)) != len(qind)", "len(set(qind)) == len(qind)")],
         ("*", "_make_subcircuit:distinct-qubits-sense"), ("C16", "C03")),
    silent("s4-distinct-qubits-by-order",
           [(UN, "len(set(qind)) != len(qind)", "len(set(qind)) < len(qind)")],
           ("C16", "C03")),
    fire("s4-memo-thrown-away",
         [(CB, "    if memo is None:\n        memo = {}", "    if not (memo is None):\n        memo = {}")],
         ("C16.31", "contains_subcircuit:memo-default"), ("C16",)),
    # ---- C14 / C06
    fire("s4-upper-bound-only-without-size",
         [(RG, "        if idx < 0 or (size is not None and idx >= int(size)):", "        if idx < 0 or (size is None and idx >= int(size)):")],
         ("C14.17", "Register.resolve_qubit:upper-bound-guard"), ("C14",)),
    fire("s4-slice-start-not-defaulted-in-constructor",
         [(RG, "                start = alias_slice.start or 0", "                start = alias_slice.start")],
         ("*", "Register.__init__:bound:start"), ("C14", "C06")),
    fire("s4-slice-start-not-defaulted-in-size",
         [(RG, "        start = self.alias_slice.start or 0", "        start = self.alias_slice.start", 0)],
         ("*", "bound:start"), ("C14", "C06")),
    # ---- C09
    fire("s4-subcircuit-builder-drops-count",
         [(CB, '"" if iterations is None else iterations', '"" if iterations is not None else iterations')],
         ("C09.15", "SubcircuitBlockBuilder.__init__:count"), ("C09",)),
]
