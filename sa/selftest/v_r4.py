"""Variants for the rules added after seed round 4 (scope discipline C06.6-8/C07.5-7, C07.8, C03.5, C03.6/C16.18)."""
from .v_c04 import fire, silent

RG = "src/jaqalpaq/core/register.py"
FM = "src/jaqalpaq/core/algorithm/fill_in_map.py"
WK = "src/jaqalpaq/core/algorithm/walkers.py"
UN = "src/jaqalpaq/emulator/unitary.py"
CO = "src/jaqalpaq/core/constant.py"

VARIANTS = [
    fire("r4-slice-bound-looked-up-by-name",
         [(RG, "        def resolve_annotated_value(value):\n            while isinstance(value, AnnotatedValue):\n                value = value.resolve_value(context)\n            return value\n",
           "        def resolve_annotated_value(value):\n            while isinstance(value, AnnotatedValue):\n                value = context[value.name] if value.name in context else value.resolve_value(context)\n            return value\n", 0)],
         ("*", "context-lookup:value.name"), ("C06", "C07")),
    silent("r4-slice-bound-parameter-guarded-lookup",
           [(RG, "        def resolve_annotated_value(value):\n            while isinstance(value, AnnotatedValue):\n                value = value.resolve_value(context)\n            return value\n",
             "        def resolve_annotated_value(value):\n            while isinstance(value, AnnotatedValue):\n                if isinstance(value, Parameter) and value.name in context:\n                    value = context[value.name]\n                else:\n                    value = value.resolve_value(context)\n            return value\n", 0)],
           ("C06", "C07")),
    fire("r4-mapfiller-memo-by-name",
         [(FM, "        reg, index = qubit.resolve_qubit()\n        return reg[index]", "        reg, index = qubit.resolve_qubit()\n        self.__dict__.setdefault('filled', {})[qubit.name] = reg[index]\n        return self.filled[qubit.name]")],
         ("*", "MapFiller.visit_NamedQubit:table-keyed-by-reference-name"), ("C06", "C07")),
    fire("r4-mapfiller-returns-name-sexpr",
         [(FM, "        reg, index = qubit.resolve_qubit()\n        return reg[index]", "        reg, index = qubit.resolve_qubit()\n        return (\"array_item\", reg.name, index)")],
         ("*", "MapFiller.visit_NamedQubit:returns-resolved-object"), ("C06", "C07")),
    fire("r4-namedqubit-hash-by-source-name",
         [(RG, "        return hash((self.__class__, self._name, self._alias_from, self._alias_index))", "        return hash((self.__class__, self._name, self._alias_from.name, self._alias_index))")],
         ("C07.8", "NamedQubit:__hash__:source-object"), ("C07",)),
    silent("r4-namedqubit-hash-with-identity",
           [(RG, "        return hash((self.__class__, self._name, self._alias_from, self._alias_index))", "        return hash((self.__class__, self._name, id(self._alias_from), self._alias_index))")],
           ("C07",)),
    fire("r4-serializer-body-once-more",
         [(WK, "        if self.started:\n            for n in range(loop.iterations):\n                yield from self.visit(loop.statements)\n        else:\n            yield from self.visit(loop.statements)",
           "        repeats = loop.iterations - 1 if self.started else 0\n        yield from self.visit(loop.statements)\n        for n in range(repeats):\n            yield from self.visit(loop.statements)")],
         ("C03.5", "TraceSerializer.visit_LoopStatement:body-count"), ("C03",)),
    silent("r4-serializer-negated-test",
           [(WK, "        if self.started:\n            for n in range(loop.iterations):\n                yield from self.visit(loop.statements)\n        else:\n            yield from self.visit(loop.statements)",
             "        if not self.started:\n            yield from self.visit(loop.statements)\n        else:\n            for n in range(loop.iterations):\n                yield from self.visit(loop.statements)")],
           ("C03",)),
    fire("r4-cached-workspace",
         [(UN, "        inp = numpy.empty(hilb_dim, dtype=complex)\n        vec = numpy.zeros(hilb_dim, dtype=complex)\n", "        inp, vec = _workspace(hilb_dim)\n        vec[:] = 0\n"),
          (UN, "\nclass EmulatorSubcircuit(", "\nfrom functools import lru_cache\n\n\n@lru_cache(maxsize=None)\ndef _workspace(hilb_dim):\n    return (numpy.empty(hilb_dim, dtype=complex), numpy.empty(hilb_dim, dtype=complex))\n\n\nclass EmulatorSubcircuit(")],
         ("*", "_workspace:cached-mutable"), ("C03", "C16")),
]
