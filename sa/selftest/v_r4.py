"""Variants for the rules added after seed round 4 (scope discipline C06.6-8/C07.5-7, C07.8, C03.5, C03.6/C16.18)."""
from .v_c04 import fire, silent

RG = "src/jaqalpaq/core/register.py"
FM = "src/jaqalpaq/core/algorithm/fill_in_map.py"
WK = "src/jaqalpaq/core/algorithm/walkers.py"
UN = "src/jaqalpaq/emulator/unitary.py"
CO = "src/jaqalpaq/core/constant.py"

VARIANTS = [
    fire("r4-slice-bound-looked-up-by-name",
         [(RG, "        def resolve_annotated_value(value):\n            while isinstance(value, AnnotatedValue):\n                value = value.resolve_value(context)\n            return value\n",
           "        def resolve_annotated_value(value):\n            while isinstance(value, AnnotatedValue):\n                value = context[value.name] if value.name in context else value.resolve_value(context)\n            return value\n", 0)],
         ("*", "context-lookup:value.name"), ("C06", "C07")),
    silent("r4-slice-bound-parameter-guarded-lookup",
           [(RG, "        def resolve_annotated_value(value):\n            while isinstance(value, AnnotatedValue):\n                value = value.resolve_value(context)\n            return value\n",
             "        def resolve_annotated_value(value):\n            while isinstance(value, AnnotatedValue):\n                if isinstance(value, Parameter) and value.name in context:\n                    value = context[value.name]\n                else:\n                    value = value.resolve_value(context)\n            return value\n", 0)],
           ("C06", "C07")),
    fire("r4-mapfiller-memo-by-name",
         [(FM, "            return qubit\n        return reg[index]", "            return qubit\n        self.__dict__.setdefault('filled', {})[qubit.name] = reg[index]\n        return self.filled[qubit.name]")],
         ("*", "MapFiller.visit_NamedQubit:table-keyed-by-reference-name"), ("C06", "C07")),
    fire("r4-mapfiller-returns-name-sexpr",
         [(FM, "            return qubit\n        return reg[index]", "            return qubit\n        return (\"array_item\", reg.name, index)")],
         ("*", "MapFiller.visit_NamedQubit:returns-resolved-object"), ("C06", "C07")),
    fire("r4-namedqubit-hash-by-source-name",
         [(RG, "        return hash((self.__class__, self._name, self._alias_from, self._alias_index))", "        return hash((self.__class__, self._name, self._alias_from.name, self._alias_index))")],
         ("C07.8", "NamedQubit:__hash__:source-object"), ("C07",)),
    silent("r4-namedqubit-hash-with-identity",
           [(RG, "        return hash((self.__class__, self._name, self._alias_from, self._alias_index))", "        return hash((self.__class__, self._name, id(self._alias_from), self._alias_index))")],
           ("C07",)),
    fire("r4-serializer-body-once-more",
         [(WK, "        if self.started:\n            for n in range(loop.iterations):\n                yield from self.visit(loop.statements)\n        else:\n            yield from self.visit(loop.statements)",
           "        repeats = loop.iterations - 1 if self.started else 0\n        yield from self.visit(loop.statements)\n        for n in range(repeats):\n            yield from self.visit(loop.statements)")],
         ("C03.5", "TraceSerializer.visit_LoopStatement:body-count"), ("C03",)),
    silent("r4-serializer-negated-test",
           [(WK, "        if self.started:\n            for n in range(loop.iterations):\n                yield from self.visit(loop.statements)\n        else:\n            yield from self.visit(loop.statements)",
             "        if not self.started:\n            yield from self.visit(loop.statements)\n        else:\n            for n in range(loop.iterations):\n                yield from self.visit(loop.statements)")],
           ("C03",)),
    fire("r4-cached-workspace",
         [(UN, "            inp = numpy.empty(hilb_dim, dtype=complex)\n            vec = numpy.zeros(hilb_dim, dtype=complex)\n", "            inp, vec = _workspace(hilb_dim)\n            vec[:] = 0\n"),
          (UN, "\nclass EmulatorSubcircuit(", "\nfrom functools import lru_cache\n\n\n@lru_cache(maxsize=None)\ndef _workspace(hilb_dim):\n    return (numpy.empty(hilb_dim, dtype=complex), numpy.empty(hilb_dim, dtype=complex))\n\n\nclass EmulatorSubcircuit(")],
         ("*", "_workspace:cached-mutable"), ("C03", "C16")),
]

CBD = "src/jaqalpaq/core/circuitbuilder.py"
VARIANTS += [
    # reverting fix 0b72e25
    fire("r4-block-context-marker-is-identifier",
         [(CBD, '        context_name = ("in block context", name)\n', '        context_name = f"__in_context_{name}__"\n')],
         ("*", "Builder.in_block_context:context-key"), ("C02", "C07")),
]
VARIANTS += [
    # reverting fix (open upper bound)
    fire("r4-alias-size-frozen-at-build",
         [(CBD, "                if src.fundamental:\n                    stop = src.size\n", "                stop = src.size\n")],
         ("*", "Builder.build_map:frozen-size"), ("C05", "C06")),
]

FM4 = "src/jaqalpaq/core/algorithm/fill_in_map.py"
FL4 = "src/jaqalpaq/core/algorithm/fill_in_let.py"
SLY4 = "src/jaqalpaq/parser/slyparse.py"
VARIANTS += [
    # reverting parts of fix 96a041f
    fire("r4-mapfiller-guard-parameters-only",
         [(FM4, "        if isinstance(obj, AnnotatedValue):\n            return True\n        if isinstance(getattr(obj, \"alias_index\", None), AnnotatedValue):",
           "        if isinstance(obj, Parameter):\n            return True\n        if isinstance(getattr(obj, \"alias_index\", None), Parameter):"),
          (FM4, "            isinstance(bound, AnnotatedValue)\n", "            isinstance(bound, Parameter)\n")],
         ("*", "symbolic-qubit-guard:lets"), ("C10", "C06")),
    fire("r4-mapfiller-shadow-test-dropped",
         [(FM4, "        if reg.name in self.shadowed:\n", "        if False:\n")],
         ("*", "MapFiller.visit_NamedQubit:shadowed-register-name"), ("C10", "C06")),
]
VARIANTS += [
    # reverting the alias-name fix
    fire("r4-letfiller-renames-declared-alias",
         [(FL4, "        if qubit.name != make_item_name(qubit.alias_from, qubit.alias_index):\n", "        if False:\n")],
         ("*", "LetFiller.visit_NamedQubit:declared-name-kept"), ("C05", "C07")),
]
VARIANTS += [
    # reverting fix b31d72a
    fire("r4-memo-numeric-raw-values",
         [(CBD, "        elif isinstance(obj, Number):\n            # 1, 1.0 and True (or 0.0 and -0.0, or equal numbers of other\n            # numeric types) are equal as keys but are different literals\n            return (type(obj).__name__, repr(obj))\n", "")],
         ("*", "GateMemoizer:memo-key:numeric-literals"), ("C07", "C01")),
    # reverting fix 672647c
    fire("r4-lexer-number-not-finite",
         [(SLY4, '        if token.value in (float("inf"), float("-inf")):\n', "        if False:\n")],
         ("*", "JaqalLexer.NUMBER:finite"), ("C01", "C16")),
]
ES4 = "src/jaqalpaq/core/algorithm/expand_subcircuits.py"
VARIANTS += [
    # reverting fix d76ac30
    fire("r4-subcircuit-expander-calls-not-relinked",
         [(ES4, "    def visit_GateStatement(self, gate):\n", "    def _unused_visit_GateStatement(self, gate):\n")],
         ("C09.9", "SubcircuitExpander:macro-calls-relinked"), ("C09",)),
]
EM4 = "src/jaqalpaq/core/algorithm/expand_macros.py"
VARIANTS += [
    # reverting fix bc00835
    fire("r4-replacer-renames-declared-alias",
         [(EM4, "        if qubit.name != make_item_name(qubit.alias_from, qubit.alias_index):\n", "        if False:\n")],
         ("C04.9", "GateReplacer.visit_NamedQubit:declared-name-kept"), ("C04",)),
]
VARIANTS += [
    # reverting part of fix 8f86fd3
    fire("r4-expand-macros-without-recursion-guard",
         [(EM4, "@nesting_guard\ndef expand_macros(", "def expand_macros(")],
         ("*", "expand_macros:recursion-guard"), ("C04", "C10")),
]
