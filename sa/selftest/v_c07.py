"""Variants for C07."""
from .v_c04 import fire, silent

CB = "src/jaqalpaq/core/circuitbuilder.py"
P = ("C07",)

VARIANTS = [
    fire("c07-key-top-level-only",
         [(CB, "            elif isinstance(arg, (list, tuple)):\n                # Identifiers nested in an argument (e.g. an array item)\n                # are looked up in the context too.\n                return tuple(make_context_entry(v) for v in arg)\n", "")],
         ("C07.1", "memo-key"), P),
    fire("c07-key-ignores-context",
         [(CB, "            if isinstance(arg, str):\n                return context.get(arg)\n            elif isinstance(arg, (list, tuple)):", "            if isinstance(arg, str):\n                return None\n            elif isinstance(arg, (list, tuple)):")],
         ("C07.1", "memo-key"), P),
    fire("c07-context-shadows-parameters",
         [(CB, "            **context,\n            **parameter_dict,\n", "            **parameter_dict,\n            **context,\n")],
         ("C07.2", "shadowing-order"), P),
    fire("c07-body-built-in-outer-context",
         [(CB, "        built_block = self.build(block, macro_context, gate_context)", "        built_block = self.build(block, context, gate_context)")],
         ("C07.2", "shadowing-order"), P),
    fire("c07-relink-drops-parallel",
         [(CB, "            return changed, BlockStatement(\n                parallel=block.parallel,\n                subcircuit=block.subcircuit,", "            return changed, BlockStatement(\n                subcircuit=block.subcircuit,")],
         ("C07.3", "BlockStatement(parallel)"), P),
    fire("c07-relink-returns-original-always",
         [(CB, "        changed, new_statements = self.visit(loop.statements)\n        if changed:\n            return changed, LoopStatement(loop.iterations, new_statements)\n        else:\n            return changed, loop",
           "        changed, new_statements = self.visit(loop.statements)\n        return changed, loop")],
         ("C07.3", "visit_LoopStatement"), P),
    fire("c07-relink-loop-count-lost",
         [(CB, "            return changed, LoopStatement(loop.iterations, new_statements)", "            return changed, LoopStatement(1, new_statements)")],
         ("C07.3", "LoopStatement(iterations)"), P),
    silent("c07-chainmap",
           [(CB, "        macro_context = {\n            **context,\n            **parameter_dict,\n        }  # parameters must be listed second to take precedence",
             "        from collections import ChainMap\n        macro_context = ChainMap(parameter_dict, context)")], P),
    silent("c07-copy-update",
           [(CB, "        macro_context = {\n            **context,\n            **parameter_dict,\n        }  # parameters must be listed second to take precedence",
             "        macro_context = context.copy()\n        macro_context.update(parameter_dict)")], P),
    silent("c07-no-memo-at-all",
           [(CB, "        gate, memo_key = self.gate_memo.get(gate_name, gate_args, context)\n        if gate is None:\n            gate_def", "        gate = None\n        if gate is None:\n            gate_def"),
            (CB, "            self.gate_memo.set(memo_key, gate)\n", ""),
            (CB, "        self.gate_memo = GateMemoizer()\n", "")], P),
]

CB7 = "src/jaqalpaq/core/circuitbuilder.py"
VARIANTS += [
    fire("c07-relinker-loop-body-not-visited",
         [(CB7, "        changed, new_statements = self.visit(loop.statements)\n        if changed:\n            return changed, LoopStatement(loop.iterations, new_statements)", "        changed, new_statements = False, loop.statements\n        if changed:\n            return changed, LoopStatement(loop.iterations, new_statements)")],
         ("C07.3", "LoopStatement.statements:visited"), ("C07",)),
]
