"""Variants for C01."""
from .v_c04 import fire, silent

GE = "src/jaqalpaq/generator/generator.py"
SL = "src/jaqalpaq/parser/slyparse.py"
PM = "src/jaqalpaq/core/parameter.py"
ID = "src/jaqalpaq/core/identifier.py"
P = ("C01",)
FIXED = '''        text = str(val)
        if "e" in text and "." not in text:
            # A Jaqal number needs a decimal point, which Python omits
            # from some values in exponent form: 1e-06 -> 1.0e-06
            text = text.replace("e", ".0e")
        return text
'''

VARIANTS = [
    fire("c01-plain-str", [(GE, FIXED, "        return str(val)\n")], ("C01.1", "number-format:float"), P),
    fire("c01-percent-g", [(GE, FIXED, "        return '%g' % val\n")], ("C01.1", "number-format"), P),
    fire("c01-percent-f", [(GE, FIXED, "        return '%f' % val\n")], ("C01.1", "lossless"), P),
    fire("c01-fstring-6f", [(GE, FIXED, '        return f"{val:.6f}"\n')], ("C01.1", "number-format"), P),
    fire("c01-round", [(GE, FIXED, "        return str(round(val, 8))\n")], ("C01.1", "lossless"), P),
    fire("c01-number-no-exponent",
         [(SL, 'NUMBER = r"[-+]?[0-9]*\\.[0-9]+([eE][-+]?[0-9]+)?"', 'NUMBER = r"[-+]?[0-9]*\\.[0-9]+"')],
         ("C01.1", "number-format:float"), P),
    fire("c01-number-no-sign",
         [(SL, 'NUMBER = r"[-+]?[0-9]*\\.[0-9]+([eE][-+]?[0-9]+)?"', 'NUMBER = r"[0-9]*\\.[0-9]+([eE][-+]?[0-9]+)?"')],
         ("C01.1", "number-format:float"), P),
    fire("c01-int-no-sign",
         [(SL, 'INT = r"[-+]?[0-9]+"', 'INT = r"[0-9]+"')],
         ("C01.1", "number-format:int"), P),
    fire("c01-int-before-number",
         [(SL, '    INT = r"[-+]?[0-9]+"\n', ''),
          (SL, '    # NUMBER comes before DOTIDENTIFIER so that .5 is a number, not a dot\n', '    INT = r"[-+]?[0-9]+"\n')],
         ("C01.1", "float:priority"), P),
    fire("c01-number-exponent-needs-sign",
         [(SL, 'NUMBER = r"[-+]?[0-9]*\\.[0-9]+([eE][-+]?[0-9]+)?"', 'NUMBER = r"[-+]?[0-9]*\\.[0-9]+([eE][0-9]+)?"')],
         ("C01.1", "number-format:float"), P),
    fire("c01-int-converted-as-float",
         [(SL, "            token.value = int(token.value)\n        except ValueError:", "            token.value = float(token.value)\n        except ValueError:")],
         ("C01.1", "INT:conversion"), P),
    fire("c01-identifier-regex-wider",
         [(ID, 'valid_identifier_regex = re.compile("^[a-zA-Z_][a-zA-Z0-9_]*$")', 'valid_identifier_regex = re.compile("^[a-zA-Z_][a-zA-Z0-9_-]*$")')],
         ("C01.2", "valid_identifier_regex"), P),
    fire("c01-item-name-parens",
         [(PM, '    return f"{array.name}[{index}]"', '    return f"{array.name}({index})"')],
         ("C01.2", "make_item_name"), P),
    fire("c01-subcircuit-prefix-dropped",
         [(GE, '    if statement.subcircuit:\n        output += "subcircuit "\n        if statement.iterations != 1:\n            output += generate_jaqal_value(statement.iterations) + " "\n', "")],
         ("C01.3", "BlockStatement.subcircuit"), P),
    fire("c01-slice-step-dropped",
         [(GE, '    if s.step:\n        return "%s:%s:%s" % (\n            generate_jaqal_value(s.start or 0),\n            stop,\n            generate_jaqal_value(s.step),\n        )\n    else:\n        return',
           '    if False:\n        pass\n    else:\n        return')],
         ("C01.3", "slice.step"), P),
    fire("c01-loop-count-dropped",
         [(GE, '            "loop ",\n            generate_jaqal_value(statement.iterations),\n            " ",\n', '            "loop ",\n            "1",\n            " ",\n')],
         ("C01.3", "LoopStatement.iterations"), P),
    fire("c01-macro-params-dropped",
         [(GE, '            " ".join([parameter.name for parameter in macro.parameters]),\n            " ",\n', '')],
         ("C01.3", "Macro.parameters"), P),
    fire("c01-usepulses-dropped",
         [(GE, "    for usepulses in circ.usepulses:\n        program.append(generate_jaqal_usepulses(usepulses))\n    if circ.usepulses:\n        program.append(\"\\n\")\n", "")],
         ("C01.3", "Circuit.usepulses"), P),
    # behaviour-preserving now that every AnnotatedValue prints its name (fix 98732e0)
    silent("c01-count-interpolated-directly",
           [(GE, '            output += generate_jaqal_value(statement.iterations) + " "', '            output += f"{statement.iterations} "')], P),
    fire("c01-parameter-str-removed",
         [(PM, "    def __str__(self):\n        return self.name\n\n    def __eq__(self, other):\n        try:\n            if isinstance(other, AnnotatedValue)", "    def __eq__(self, other):\n        try:\n            if isinstance(other, AnnotatedValue)")],
         ("C01.2", "make_item_name"), P),
    fire("c01-count-depends-on-constant-value",
         [(GE, "        if statement.iterations != 1:", '        if getattr(statement.iterations, "value", statement.iterations) != 1:')],
         ("C01.6", "reads-constant-value"), P),
    fire("c01-parallel-closer-wrong",
         [(GE, '    if statement.parallel:\n        output += ">\\n"\n    else:\n        output += "}\\n"', '    if statement.parallel:\n        output += "}\\n"\n    else:\n        output += ">\\n"')],
         ("C01.4", "templates"), P),
    fire("c01-gate-missing-newline",
         [(GE, '                )\n            ),\n            "\\n",\n        )\n    )\n\n\ndef generate_jaqal_loop', '                )\n            ),\n            " ",\n        )\n    )\n\n\ndef generate_jaqal_loop')],
         ("C01.4", "templates"), P),
    fire("c01-loop-keyword-glued",
         [(GE, '            "loop ",\n', '            "loop",\n')],
         ("C01.4", "templates"), P),
    fire("c01-map-without-brackets",
         [(GE, '                register.alias_from.name,\n                "[",\n                notate_slice(register.alias_slice),\n                "]\\n",', '                register.alias_from.name,\n                " ",\n                notate_slice(register.alias_slice),\n                "\\n",')],
         ("C01.4", "templates"), P),
    fire("c01-usepulses-without-star",
         [(GE, '    return f"from {usepulses.module} usepulses *\\n"', '    return f"from {usepulses.module} usepulses\\n"')],
         ("C01.4", "templates"), P),
    silent("c01-fstring-let",
           [(GE, '    return "".join(("let ", const.name, " ", generate_jaqal_value(const.value), "\\n"))', '    return f"let {const.name} {generate_jaqal_value(const.value)}\\n"')], P),
    silent("c01-repr-instead-of-str", [(GE, "        text = str(val)\n", "        text = repr(val)\n")], P),
    silent("c01-number-regex-equivalent",
           [(SL, 'NUMBER = r"[-+]?[0-9]*\\.[0-9]+([eE][-+]?[0-9]+)?"', 'NUMBER = r"[+-]?\\d*\\.\\d+(?:[eE][+-]?\\d+)?"')], P),
    silent("c01-number-accepts-bare-exponent",
           [(SL, 'NUMBER = r"[-+]?[0-9]*\\.[0-9]+([eE][-+]?[0-9]+)?"', 'NUMBER = r"[-+]?([0-9]*\\.[0-9]+([eE][-+]?[0-9]+)?|[0-9]+[eE][-+]?[0-9]+)"')], P),
]

VARIANTS += [
    fire("c01-slice-stop-prints-start",
         [(GE, '    stop = "" if s.stop is None else generate_jaqal_value(s.stop)', '    stop = "" if s.stop is None else generate_jaqal_value(s.start)')],
         ("C01.3", "notate_slice:slice-positions"), P),
]
