"""Variants for C03 and C18."""
from .v_c04 import fire, silent

UN = "src/jaqalpaq/emulator/unitary.py"
RUN = "src/jaqalpaq/run/run.py"
GD = "src/jaqalpaq/core/gatedef.py"
ST = "src/jaqalpaq/core/stretch.py"
FIXED = "            ideal_unitary = lambda *args, _unitary=gate.ideal_unitary: _unitary(\n                *args[:-1]\n            )"

VARIANTS = [
    fire("c03-raw-alias-index", [(UN, "                    qind.append(val.resolve_qubit()[1])", "                    qind.append(val.alias_index)")], ("C03.1", "qubit-operands"), ("C03",)),
    fire("c03-unitary-gets-list", [(UN, "            dsub = gatedef.ideal_unitary(*argv)", "            dsub = gatedef.ideal_unitary(argv[:])")], ("C03.2", "ideal_unitary-call"), ("C03",)),
    fire("c03-sorted-pairing", [(UN, "zip(gatedef.parameters, gate.parameters.values())", "zip(gatedef.parameters, sorted(gate.parameters.values(), key=str))")], ("C03.3", "parameter-pairing"), ("C03",)),
    fire("c03-gates-reversed", [(UN, "        for gate in s.visit(circ):", "        for gate in reversed(list(s.visit(circ))):")], ("C03.3", "gate-order"), ("C03",)),
    fire("c03-macros-not-expanded", [(RUN, "    expanded = expand_macros(fill_in_let(expand_subcircuits(circuit)))", "    expanded = fill_in_let(expand_subcircuits(circuit))")], ("C03.4", "normalise-before-execute"), ("C03",)),
    fire("c03-none-unitary-not-skipped", [(UN, "            if gatedef.ideal_unitary is None:\n                # maybe add other checks?\n                continue\n", "")], ("C03.4", "no-unitary-skipped"), ("C03",)),
    silent("c03-keyed-pairing",
           [(UN, "            for param, val in zip(gatedef.parameters, gate.parameters.values()):\n", "            for param in gatedef.parameters:\n                val = gate.parameters[param.name]\n")], ("C03",)),
    # ---- C18
    fire("c18-late-binding", [(ST, FIXED, "            ideal_unitary = lambda *args: gate.ideal_unitary(*args[:-1])")], ("C18.3", "closure:late-binding"), ("C18",)),
    fire("c18-unsplatted", [(ST, FIXED, "            ideal_unitary = lambda *args, _unitary=gate.ideal_unitary: _unitary(args[:-1])")], ("C18.3", "closure:protocol"), ("C18",)),
    fire("c18-drops-first-argument", [(ST, FIXED, "            ideal_unitary = lambda *args, _unitary=gate.ideal_unitary: _unitary(*args[1:])")], ("C18.3", "closure:protocol"), ("C18",)),
    fire("c18-parent-signature-mutated", [(ST, "        parameters = gate.parameters.copy()", "        parameters = gate.parameters")], ("C18.3", "parameters"), ("C18",)),
    fire("c18-stretch-int", [(ST, 'Parameter(stretch_name, ParamType.FLOAT)', 'Parameter(stretch_name, ParamType.INT)')], ("C18.3", "parameters"), ("C18",)),
    fire("c18-keyword-order-sorted", [(GD, "                for param in self.parameters:\n                    params[param.name] = kwargs.pop(param.name)", "                for param in sorted(self.parameters, key=lambda p: p.name):\n                    params[param.name] = kwargs.pop(param.name)")], ("C18.1", "fills"), ("C18",)),
    fire("c18-extra-keywords-ignored", [(GD, "            if kwargs:\n                raise JaqalError(\n                    f\"Invalid parameters {', '.join(kwargs)} for gate {self.name}.\"\n                )\n", "")], ("C18.1", "unknown-keywords-rejected"), ("C18",)),
    fire("c18-idle-prepare-allowed", [(GD, '        if gate.name in ("prepare_all", "measure_all"):\n            raise JaqalError(f"Cannot make an idle gate for {gate.name}")\n', "")], ("C18.2", "prepare-measure-refused"), ("C18",)),
    fire("c18-idle-own-signature", [(GD, "        self._parameters = gate._parameters\n", "        self._parameters = []\n")], ("C18.2", "signature"), ("C18",)),
    fire("c18-idle-replaces-active", [(GD, "        gates[n] = g\n\n        try:", "        try:")], ("C18.2", "keeps-and-adds"), ("C18",)),
    silent("c18-def-wrapper",
           [(ST, FIXED, "            def ideal_unitary(*args, _unitary=gate.ideal_unitary):\n                return _unitary(*args[:-1])")], ("C18",)),
]

ST18 = "src/jaqalpaq/core/stretch.py"
VARIANTS += [
    # reverting fix cc38cf1
    fire("c18-stretched-keyed-by-none",
         [(ST18, '        new_name = gate.name + suffix\n\n        parameters', "        if suffix:\n            new_name = gate.name + suffix\n        else:\n            new_name = None\n\n        parameters")],
         ("C18.3", "stretched_gates:result-key"), ("C18",)),
]
PA18 = "src/jaqalpaq/core/parameter.py"
VARIANTS += [
    # reverting fix b0b9c6e
    fire("c18-validate-int-converts-value",
         [(PA18, "                isinstance(value, Real) and value.is_integer()\n", "                isinstance(value, Real) and int(value) == value\n")],
         ("C18.4", "Parameter.validate:int-branch-total"), ("C18",)),
]
UN3 = "src/jaqalpaq/emulator/unitary.py"
VARIANTS += [
    fire("c03-pairing-roles-exchanged",
         [(UN3, "zip(gatedef.parameters, gate.parameters.values())", "zip(gate.parameters.values(), gatedef.parameters)")],
         ("C03.3", "parameter-pairing"), ("C03",)),
]
GD18 = "src/jaqalpaq/core/gatedef.py"
VARIANTS += [
    fire("c18-idle-refusal-polarity",
         [(GD18, '        if gate.name in ("prepare_all", "measure_all"):\n            raise JaqalError(f"Cannot make an idle gate for {gate.name}")', '        if gate.name not in ("prepare_all", "measure_all"):\n            raise JaqalError(f"Cannot make an idle gate for {gate.name}")')],
         ("C18.2", "prepare-measure-refused"), ("C18",)),
    fire("c18-stretched-update-flag-inverted",
         [(ST18, "    if update:\n        gates.update(new_gates)", "    if not update:\n        gates.update(new_gates)")],
         ("C18.3", "stretched_gates:update-flag"), ("C18",)),
]
