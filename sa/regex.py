"""E5 -- regular-language toolkit on top of ``re._parser`` (the regex *parser*).

Alphabet: code points 0..127 plus one symbol OTHER standing for every
non-ASCII character.  Automata are small (tens of states) so plain subset
construction over the full alphabet is fine.
"""

from __future__ import annotations

import re._parser as sre_parse
import re._constants as sre_c
from collections import deque
from typing import Dict, FrozenSet, List, Optional, Set, Tuple

OTHER = 128
SIGMA = list(range(129))
ALL = frozenset(SIGMA)


class Unsupported(Exception):
    pass


def _category(cat) -> FrozenSet[int]:
    digits = frozenset(range(48, 58))
    word = frozenset(list(range(48, 58)) + list(range(65, 91)) + list(range(97, 123)) + [95, OTHER])
    space = frozenset([9, 10, 11, 12, 13, 32])
    table = {
        sre_c.CATEGORY_DIGIT: digits,
        sre_c.CATEGORY_NOT_DIGIT: ALL - digits,
        sre_c.CATEGORY_WORD: word,
        sre_c.CATEGORY_NOT_WORD: ALL - word,
        sre_c.CATEGORY_SPACE: space,
        sre_c.CATEGORY_NOT_SPACE: ALL - space,
    }
    if cat not in table:
        raise Unsupported(f"category {cat}")
    return table[cat]


def _sym(code: int) -> int:
    return code if code < 128 else OTHER


class NFA:
    def __init__(self):
        self.n = 0
        self.eps: Dict[int, List[int]] = {}
        self.trans: Dict[int, List[Tuple[FrozenSet[int], int]]] = {}
        self.start = self.new()
        self.accept: Set[int] = set()

    def new(self) -> int:
        s = self.n
        self.n += 1
        self.eps[s] = []
        self.trans[s] = []
        return s

    def add(self, a, chars: FrozenSet[int], b):
        self.trans[a].append((chars, b))

    def add_eps(self, a, b):
        self.eps[a].append(b)


class Features:
    def __init__(self):
        self.lazy = False
        self.anchors: List[str] = []
        self.lazy_nodes = []


def _build(nfa: NFA, items, s: int, feats: Features) -> int:
    """Append automaton for the item sequence starting at state s; return end state."""
    for op, arg in items:
        s = _build_one(nfa, op, arg, s, feats)
    return s


def _charset_of_in(arg) -> FrozenSet[int]:
    negate = False
    chars: Set[int] = set()
    for op, a in arg:
        if op is sre_c.NEGATE:
            negate = True
        elif op is sre_c.LITERAL:
            chars.add(_sym(a))
        elif op is sre_c.RANGE:
            lo, hi = a
            for c in range(lo, min(hi, 127) + 1):
                chars.add(c)
            if hi > 127:
                chars.add(OTHER)
        elif op is sre_c.CATEGORY:
            chars |= _category(a)
        else:
            raise Unsupported(f"class item {op}")
    fs = frozenset(chars)
    return ALL - fs if negate else fs


def _build_one(nfa: NFA, op, arg, s: int, feats: Features) -> int:
    if op is sre_c.LITERAL:
        e = nfa.new()
        nfa.add(s, frozenset([_sym(arg)]), e)
        return e
    if op is sre_c.NOT_LITERAL:
        e = nfa.new()
        nfa.add(s, ALL - frozenset([_sym(arg)]), e)
        return e
    if op is sre_c.ANY:
        e = nfa.new()
        nfa.add(s, ALL - frozenset([10]), e)
        return e
    if op is sre_c.IN:
        e = nfa.new()
        nfa.add(s, _charset_of_in(arg), e)
        return e
    if op is sre_c.BRANCH:
        _, alts = arg
        e = nfa.new()
        for alt in alts:
            a0 = nfa.new()
            nfa.add_eps(s, a0)
            a1 = _build(nfa, alt, a0, feats)
            nfa.add_eps(a1, e)
        return e
    if op is sre_c.SUBPATTERN:
        group, add_flags, del_flags, p = arg
        if add_flags or del_flags:
            raise Unsupported("inline flags")
        return _build(nfa, p, s, feats)
    if op in (sre_c.MAX_REPEAT, sre_c.MIN_REPEAT):
        lo, hi, p = arg
        if op is sre_c.MIN_REPEAT:
            feats.lazy = True
            feats.lazy_nodes.append((lo, hi, p))
        cur = s
        for _ in range(lo):
            cur = _build(nfa, p, cur, feats)
        if hi is sre_c.MAXREPEAT:
            loop = nfa.new()
            nfa.add_eps(cur, loop)
            body_end = _build(nfa, p, loop, feats)
            nfa.add_eps(body_end, loop)
            return loop
        e = nfa.new()
        nfa.add_eps(cur, e)
        for _ in range(hi - lo):
            cur = _build(nfa, p, cur, feats)
            nfa.add_eps(cur, e)
        return e
    if op is sre_c.AT:
        feats.anchors.append(str(arg))
        return s
    raise Unsupported(f"regex construct {op}")


class DFA:
    """Complete DFA over SIGMA."""

    def __init__(self, trans: List[List[int]], start: int, accept: Set[int]):
        self.trans = trans
        self.start = start
        self.accept = set(accept)

    @property
    def n(self):
        return len(self.trans)

    # -------------------------------------------------------------- builders
    @staticmethod
    def from_nfa(nfa: NFA) -> "DFA":
        def closure(states):
            st = set(states)
            stack = list(states)
            while stack:
                x = stack.pop()
                for y in nfa.eps[x]:
                    if y not in st:
                        st.add(y)
                        stack.append(y)
            return frozenset(st)

        start = closure([nfa.start])
        ids = {start: 0}
        trans: List[List[int]] = []
        accept = set()
        queue = deque([start])
        order = [start]
        while queue:
            S = queue.popleft()
            row = []
            moves: Dict[int, Set[int]] = {}
            for x in S:
                for chars, y in nfa.trans[x]:
                    for c in chars:
                        moves.setdefault(c, set()).add(y)
            cache = {}
            for c in SIGMA:
                tgt = moves.get(c)
                if not tgt:
                    row.append(-1)
                    continue
                key = frozenset(tgt)
                if key not in cache:
                    cache[key] = closure(key)
                T = cache[key]
                if T not in ids:
                    ids[T] = len(ids)
                    queue.append(T)
                    order.append(T)
                row.append(ids[T])
            trans.append(row)
        # completing with a dead state
        dead = len(order)
        need_dead = any(-1 in row for row in trans)
        for row in trans:
            for i, t in enumerate(row):
                if t == -1:
                    row[i] = dead
        if need_dead:
            trans.append([dead] * len(SIGMA))
        for S, i in ids.items():
            if S & nfa.accept:
                accept.add(i)
        return DFA(trans, 0, accept)

    @staticmethod
    def from_pattern(pattern: str, flags: int = 0) -> Tuple["DFA", Features]:
        try:
            parsed = sre_parse.parse(pattern, flags)
        except Exception as ex:
            raise Unsupported(f"cannot parse regex {pattern!r}: {ex}")
        nfa = NFA()
        feats = Features()
        end = _build(nfa, list(parsed), nfa.start, feats)
        nfa.accept = {end}
        return DFA.from_nfa(nfa), feats

    # ------------------------------------------------------------ operations
    def complement(self) -> "DFA":
        return DFA([list(r) for r in self.trans], self.start, set(range(self.n)) - self.accept)

    def product(self, other: "DFA", mode: str) -> "DFA":
        ids = {(self.start, other.start): 0}
        queue = deque([(self.start, other.start)])
        trans = []
        accept = set()
        while queue:
            a, b = queue.popleft()
            row = []
            for c in SIGMA:
                t = (self.trans[a][c], other.trans[b][c])
                if t not in ids:
                    ids[t] = len(ids)
                    queue.append(t)
                row.append(ids[t])
            trans.append(row)
        for (a, b), i in ids.items():
            ia, ib = a in self.accept, b in other.accept
            if (mode == "and" and ia and ib) or (mode == "or" and (ia or ib)) or (mode == "diff" and ia and not ib):
                accept.add(i)
        # rows were appended in BFS order == id order
        return DFA(trans, 0, accept)

    def intersect(self, other):
        return self.product(other, "and")

    def union(self, other):
        return self.product(other, "or")

    def minus(self, other):
        return self.product(other, "diff")

    def shortest(self, prefer_printable=True) -> Optional[str]:
        """Shortest accepted string (None if the language is empty)."""
        prev = {self.start: None}
        queue = deque([self.start])
        order = _symbol_order()
        while queue:
            s = queue.popleft()
            if s in self.accept:
                out = []
                while prev[s] is not None:
                    p, c = prev[s]
                    out.append(c)
                    s = p
                return "".join(_render(c) for c in reversed(out))
            for c in order:
                t = self.trans[s][c]
                if t not in prev:
                    prev[t] = (s, c)
                    queue.append(t)
        return None

    def is_empty(self) -> bool:
        return self.shortest() is None

    def included_in(self, other: "DFA") -> Optional[str]:
        """None if L(self) <= L(other), else the shortest witness in the difference."""
        return self.minus(other).shortest()

    def accepts(self, s: str) -> bool:
        st = self.start
        for ch in s:
            st = self.trans[st][_sym(ord(ch))]
        return st in self.accept

    def then_any(self) -> "DFA":
        """L . Sigma*"""
        trans = [list(r) for r in self.trans]
        sink = len(trans)
        trans.append([sink] * len(SIGMA))
        for a in self.accept:
            trans[a] = [sink] * len(SIGMA)
        return DFA(trans, self.start, set(self.accept) | {sink})

    def nonempty_prefixes_matching(self, other: "DFA") -> Optional[str]:
        """Shortest w in L(self) that has a non-empty prefix in L(other), with the prefix."""
        w = self.intersect(other.then_any()).shortest()
        return w

    def first_chars(self) -> FrozenSet[int]:
        live = self._live()
        return frozenset(c for c in SIGMA if self.trans[self.start][c] in live)

    def _live(self) -> Set[int]:
        rev: Dict[int, Set[int]] = {}
        for s, row in enumerate(self.trans):
            for t in row:
                rev.setdefault(t, set()).add(s)
        live = set(self.accept)
        stack = list(self.accept)
        while stack:
            x = stack.pop()
            for y in rev.get(x, ()):
                if y not in live:
                    live.add(y)
                    stack.append(y)
        return live

    def contains_char(self, code: int) -> Optional[str]:
        """Shortest accepted string containing the character, or None."""
        any_, _ = DFA.from_pattern("(.|\\n)*" + sre_escape(chr(code)) + "(.|\\n)*")
        return self.intersect(any_).shortest()


def sre_escape(ch: str) -> str:
    import re

    return re.escape(ch)


def _symbol_order():
    pref = [ord(c) for c in "0123456789abcdefghijklmnopqrstuvwxyzABCDEFGHIJKLMNOPQRSTUVWXYZ_.+-*/ \n\t"]
    rest = [c for c in SIGMA if c not in pref]
    return pref + rest


def _render(c: int) -> str:
    if c == OTHER:
        return "é"
    return chr(c)


def lang(pattern: str) -> DFA:
    return DFA.from_pattern(pattern)[0]


def glushkov_deterministic(pattern: str) -> bool:
    """Is the pattern one-unambiguous enough that leftmost-priority matching equals
    longest matching?  Conservative test: no state of the *position* automaton
    has two transitions on the same character to different positions."""
    parsed = sre_parse.parse(pattern)
    nfa = NFA()
    feats = Features()
    end = _build(nfa, list(parsed), nfa.start, feats)
    nfa.accept = {end}

    def closure(s):
        st = {s}
        stack = [s]
        while stack:
            x = stack.pop()
            for y in nfa.eps[x]:
                if y not in st:
                    st.add(y)
                    stack.append(y)
        return st

    for s in range(nfa.n):
        seen: Dict[int, int] = {}
        for x in closure(s):
            for chars, y in nfa.trans[x]:
                for c in chars:
                    if c in seen and seen[c] != y:
                        return False
                    seen[c] = y
    return True
