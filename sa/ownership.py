"""E8 -- ownership / effect analysis.

Question: can a mutating operation reachable from an entry point act on an
object that may be (reachable from) the entry point's input?

Abstract values are frozensets of atoms:
  'INPUT'            the entry point's argument or anything read from it
  'GLOBAL'           module / class level object
  'UNKNOWN'          not tracked
  'SELF'             the receiver of the current method
  ('P', fq, name)    parameter ``name`` of function ``fq`` (and anything read from it)
  ('OBJ', site)      object allocated by an in-package constructor call at ``site``
  ('CONT', site)     fresh container allocated at ``site`` (display, comprehension, copy ...)
  'FRESH'            fresh opaque value (result of a pure library call)
The empty set is an immutable value (None, numbers, strings ...).

The analysis is flow-insensitive inside a function, uses symbolic summaries
(return value in terms of SELF / P atoms, substituted at call sites) and a
final context-insensitive grounding of parameters over all call sites.
"""

from __future__ import annotations

import ast
from typing import Dict, FrozenSet, List, Optional, Set, Tuple

from .index import Index, FuncInfo
from .typing import Typer, CallSite
from .cfg import walk_no_nested, iter_stmts

AV = FrozenSet
EMPTY: AV = frozenset()
UNKNOWN: AV = frozenset({"UNKNOWN"})

MUTATING_METHODS = {
    "append", "extend", "insert", "pop", "remove", "clear", "sort", "reverse", "update",
    "setdefault", "popitem", "add", "discard", "appendleft", "popleft", "extendleft",
    "__setitem__", "__delitem__", "difference_update", "intersection_update",
    "symmetric_difference_update", "rotate", "fill", "resize", "put", "itemset",
}
COPY_CALLS = {"list", "dict", "set", "tuple", "sorted", "frozenset", "deque", "OrderedDict", "defaultdict"}
PASS_ITER_CALLS = {"iter", "enumerate", "reversed", "zip", "zip_longest", "chain", "filter", "map", "from_iterable", "islice"}
PURE_CALLS = {
    "len", "range", "isinstance", "hasattr", "getattr", "int", "float", "str", "bool", "repr", "abs", "max", "min",
    "sum", "any", "all", "type", "id", "hash", "format", "print", "round", "slice", "next", "callable", "issubclass",
    "ord", "chr", "divmod", "pow",
}
# attributes holding user-supplied pure functions (assumption recorded in the evidence)
IMMUTABLE_BUILTINS = {"builtin:float", "builtin:int", "builtin:str", "builtin:bool", "builtin:complex", "builtin:NoneType", "builtin:bytes"}
# method names that exist only on immutable builtin values
IMMUTABLE_METHODS = {"is_integer", "bit_length", "as_integer_ratio", "hex", "conjugate"}
PURE_VALUE_CALLS = {"ideal_unitary", "_ideal_unitary"}
PURE_MODULE_PREFIXES = ("numpy", "math", "itertools", "collections", "warnings", "os", "re", "functools", "copy")


class Site:
    __slots__ = ("func", "node", "kind", "desc")

    def __init__(self, func: FuncInfo, node, kind: str, desc: str):
        self.func, self.node, self.kind, self.desc = func, node, kind, desc

    def loc(self):
        return f"{self.func.path}:{getattr(self.node, 'lineno', self.func.lineno)}"


class Summary:
    def __init__(self):
        self.ret: AV = EMPTY
        self.mutations: List[Tuple[AV, Site]] = []  # receiver value, site


class Ownership:
    def __init__(self, ix: Index, typer: Typer, exclude_modules=()):
        self.ix, self.T = ix, typer
        self.exclude = tuple(exclude_modules)
        self.summaries: Dict[str, Summary] = {}
        self.env: Dict[str, Dict[str, AV]] = {}
        self.contents: Dict[object, AV] = {}  # ('CONT', site) / ('P',...) etc -> element values
        self.site_class: Dict[int, str] = {}
        self.site_args: Dict[int, Dict[str, AV]] = {}
        self.site_info: Dict[int, Tuple[FuncInfo, ast.AST]] = {}
        self.obj_stores: Dict[Tuple[int, str], AV] = {}
        self.class_stores: Dict[Tuple[str, str], AV] = {}  # (class, attr) -> values stored through self
        self.param_val: Dict[Tuple[str, str], AV] = {}
        self.self_val: Dict[str, AV] = {}
        self.unresolved: List[Tuple[FuncInfo, ast.Call, AV]] = []
        self.reachable: List[FuncInfo] = []
        self.changed = True

    # ------------------------------------------------------------------ API
    def analyse(self, entries: List[str], max_rounds: int = 12):
        g = self.T.graph(weak=True)
        seen: Set[str] = set()
        stack = list(entries)
        while stack:
            q = stack.pop()
            if q in seen or q not in self.ix.functions:
                continue
            f = self.ix.functions[q]
            if f.module.startswith(self.exclude) if self.exclude else False:
                continue
            seen.add(q)
            stack.extend(g.successors(q))
        self.reachable = [self.ix.functions[q] for q in sorted(seen)]
        self.entries = set(entries)
        for f in self.reachable:
            self.summaries[f.qualname] = Summary()
        rounds = 0
        self.changed = True
        while self.changed and rounds < max_rounds:
            self.changed = False
            rounds += 1
            self.unresolved = []
            for f in self.reachable:
                _FuncEval(self, f).run()
        self.rounds = rounds
        return self

    # -------------------------------------------------------------- helpers
    def _join_store(self, table, key, val: AV):
        old = table.get(key)
        new = (old or EMPTY) | val
        if old is None or new != old:
            table[key] = new
            self.changed = True

    def add_contents(self, atom, val: AV):
        self._join_store(self.contents, atom, val)

    def contents_of(self, av: AV, _seen=None) -> AV:
        out = set()
        _seen = _seen if _seen is not None else set()
        for a in av:
            if a in _seen:
                continue
            _seen.add(a)
            if a in ("INPUT", "GLOBAL", "UNKNOWN"):
                out.add(a)
            elif a == "FRESH":
                out.add("UNKNOWN")
            elif isinstance(a, tuple) and a[0] == "S":
                out.add(a)
            elif isinstance(a, tuple) and a[0] == "P":
                out.add(("PR", a[1], a[2]))
                out |= self.contents.get(a, EMPTY)
            elif isinstance(a, tuple) and a[0] == "PR":
                out.add(a)
            elif isinstance(a, tuple) and a[0] == "CONT":
                out |= self.contents.get(a, EMPTY)
            elif isinstance(a, tuple) and a[0] == "OBJ":
                k = self.site_class.get(a[1])
                # container protocol of IR classes: __iter__/__getitem__ read `statements`
                got = False
                if k:
                    for m in ("__iter__", "__getitem__"):
                        fi = self.ix.find_method(k, m)
                        if fi is not None:
                            s = self.summaries.get(fi.qualname)
                            if s is not None:
                                out |= self.contents_of(self.subst(s.ret, fi, frozenset({a}), {}, None), _seen)
                                got = True
                if not got:
                    out.add("UNKNOWN")
        return frozenset(out)

    def attr_of(self, av: AV, attr: str) -> AV:
        out = set()
        for a in av:
            if a in ("INPUT", "GLOBAL", "UNKNOWN"):
                out.add(a)
            elif a == "FRESH":
                out.add("FRESH")
            elif isinstance(a, tuple) and a[0] == "S":
                out.add(("SELFATTR", a[1], attr))  # resolved by the evaluator (knows the class)
            elif isinstance(a, tuple) and a[0] == "P":
                out.add(("PR", a[1], a[2]))
            elif isinstance(a, tuple) and a[0] == "PR":
                out.add(a)
            elif isinstance(a, tuple) and a[0] == "CONT":
                out.add("UNKNOWN")
            elif isinstance(a, tuple) and a[0] == "OBJ":
                out |= self.obj_attr(a, attr)
        return frozenset(out)

    def obj_attr(self, atom, attr: str, _depth=0) -> AV:
        site = atom[1]
        k = self.site_class.get(site)
        if k is None or _depth > 4:
            return UNKNOWN
        ix = self.ix
        fa = ix.find_attr(k, attr)
        fld = attr
        if fa and fa[0] == "property":
            f2 = ix.property_field(k, attr)
            if f2 is None:
                getter = ix.find_method(k, attr)
                s = self.summaries.get(getter.qualname)
                if s is None:
                    # property getter outside the reachable set: evaluate lazily
                    return UNKNOWN
                return self.subst(s.ret, getter, frozenset({atom}), {}, None)
            fld = f2
        elif fa and fa[0] == "method":
            return EMPTY
        out = set(self.obj_stores.get((site, fld), EMPTY))
        init = ix.find_method(k, "__init__")
        found = False
        for c in ix.mro(k):
            v = self.class_stores.get((c, fld))
            if v is not None:
                found = True
                for x in v:
                    if isinstance(x, tuple) and x[0] == "P" and init is not None and self._is_init_param(x, k):
                        out |= self.site_args.get(site, {}).get(x[2], UNKNOWN if x[2] not in self._defaults(x[1]) else self._defaults(x[1])[x[2]])
                    elif isinstance(x, tuple) and x[0] == "S" and self.ix.functions[x[1]].cls in self.ix.mro(k):
                        out.add(atom)
                    else:
                        out.add(x)
        if not found and not out:
            if fa and fa[0] == "classattr":
                return frozenset({"GLOBAL"})
            return UNKNOWN
        return frozenset(out)

    def _is_init_param(self, atom, k) -> bool:
        fq = atom[1]
        f = self.ix.functions.get(fq)
        return f is not None and f.name == "__init__" and f.cls in self.ix.mro(k)

    def _defaults(self, fq) -> Dict[str, AV]:
        cache = getattr(self, "_def_cache", None)
        if cache is None:
            cache = self._def_cache = {}
        if fq not in cache:
            f = self.ix.functions[fq]
            a = f.node.args
            d = {}
            pos = a.posonlyargs + a.args
            for arg, dv in zip(pos[len(pos) - len(a.defaults):], a.defaults):
                d[arg.arg] = EMPTY if isinstance(dv, ast.Constant) else UNKNOWN
            for arg, dv in zip(a.kwonlyargs, a.kw_defaults):
                if dv is not None:
                    d[arg.arg] = EMPTY if isinstance(dv, ast.Constant) else UNKNOWN
            cache[fq] = d
        return cache[fq]

    def subst(self, av: AV, callee: FuncInfo, recv: Optional[AV], args: Dict[str, AV], call_defaults_for: Optional[FuncInfo]) -> AV:
        """Substitute SELF and the callee's own P atoms in a summary value."""
        out = set()
        dfl = self._defaults(callee.qualname)
        for a in av:
            if isinstance(a, tuple) and a[0] == "S" and a[1] == callee.qualname:
                out |= recv if recv is not None else UNKNOWN
            elif isinstance(a, tuple) and a[0] == "P" and a[1] == callee.qualname:
                if a[2] in args:
                    out |= args[a[2]]
                elif a[2] in dfl:
                    out |= dfl[a[2]]
                else:
                    out.add(a)  # unbound here: grounded later
            elif isinstance(a, tuple) and a[0] == "PR" and a[1] == callee.qualname:
                if a[2] in args:
                    out |= self.read_from(args[a[2]])
                elif a[2] in dfl:
                    out |= self.read_from(dfl[a[2]])
                else:
                    out.add(a)
            elif isinstance(a, tuple) and a[0] == "SELFATTR":
                out |= self.attr_of(recv if recv is not None else UNKNOWN, a[2]) if a[1] == callee.qualname else frozenset({"UNKNOWN"})
            else:
                out.add(a)
        return frozenset(out)

    # ------------------------------------------------------------- grounding
    def read_from(self, av: AV) -> AV:
        """Abstract value of 'something read (at any depth) from a value in av'."""
        out = set()
        work = []
        seen = set()

        def push(x):
            if x not in seen:
                seen.add(x)
                work.append(x)

        for a in av:
            push(a)
        first = set(av)
        while work:
            a = work.pop()
            if a in ("INPUT", "GLOBAL", "UNKNOWN"):
                out.add(a)
            elif a == "FRESH":
                # values produced by pure library calls do not alias circuit objects (assumption)
                out.add("FRESH")
            elif isinstance(a, tuple) and a[0] in ("P", "PR"):
                out.add(("PR", a[1], a[2]))
                for x in self.contents.get(("P", a[1], a[2]), EMPTY):
                    out.add(x)
                    push(x)
            elif isinstance(a, tuple) and a[0] == "S":
                out.add("UNKNOWN")
            elif isinstance(a, tuple) and a[0] == "CONT":
                for x in self.contents.get(a, EMPTY):
                    out.add(x)
                    push(x)
            elif isinstance(a, tuple) and a[0] == "OBJ":
                for (site, attr), v in self.obj_stores.items():
                    if site == a[1]:
                        for x in v:
                            out.add(x)
                            push(x)
                for v in self.site_args.get(a[1], {}).values():
                    for x in v:
                        out.add(x)
                        push(x)
        return frozenset(out)

    def reach_closure(self, av: AV) -> AV:
        out = set(av)
        work = list(av)
        while work:
            a = work.pop()
            more = EMPTY
            if isinstance(a, tuple) and a[0] == "CONT":
                more = self.contents.get(a, EMPTY)
            elif isinstance(a, tuple) and a[0] == "OBJ":
                acc = set()
                for (site, attr), v in self.obj_stores.items():
                    if site == a[1]:
                        acc |= v
                for v in self.site_args.get(a[1], {}).values():
                    acc |= v
                more = frozenset(acc)
            for x in more:
                if x not in out:
                    out.add(x)
                    work.append(x)
        return frozenset(out)

    def ground(self, av: AV, _seen=None) -> AV:
        _seen = _seen if _seen is not None else set()
        out = set()
        for a in av:
            if isinstance(a, tuple) and a[0] == "P":
                key = (a[1], a[2])
                if a[1] in self.entries:
                    f = self.ix.functions[a[1]]
                    out.add("INPUT")
                    continue
                if key in _seen:
                    continue
                _seen.add(key)
                vals = self.param_val.get(key)
                if vals is None:
                    f = self.ix.functions.get(a[1])
                    # never called from the reachable set (e.g. only via an entry's dispatch): unknown origin
                    out.add("UNKNOWN")
                else:
                    # a P atom stands for the argument AND everything read from it:
                    # close over the contents of fresh containers / fields of fresh objects passed in
                    out |= self.ground(vals, _seen)
            elif isinstance(a, tuple) and a[0] == "PR":
                key = ("PR", a[1], a[2])
                if a[1] in self.entries:
                    out.add("INPUT")
                    continue
                if key in _seen:
                    continue
                _seen.add(key)
                vals = self.param_val.get((a[1], a[2]))
                if vals is None:
                    out.add("UNKNOWN")
                else:
                    out |= self.ground(self.read_from(vals), _seen)
            elif isinstance(a, tuple) and a[0] == "S":
                key = ("S", a[1])
                if key in _seen:
                    continue
                _seen.add(key)
                vals = self.self_val.get(a[1])
                if vals is None:
                    out.add("UNKNOWN")
                else:
                    out |= self.ground(vals, _seen)
            elif isinstance(a, tuple) and a[0] == "SELFATTR":
                out.add("UNKNOWN")
            else:
                out.add(a)
        return frozenset(out)


class _FuncEval:
    def __init__(self, own: Ownership, f: FuncInfo):
        self.o, self.f = own, f
        self.ix, self.T = own.ix, own.T
        self.env = own.env.setdefault(f.qualname, {})
        self.summary = own.summaries[f.qualname]
        self.selfname = f.params[0] if (f.cls and f.params and not f.is_staticmethod and not isinstance(f.node, ast.Lambda)) else None
        self.calls: Dict[int, List[CallSite]] = {}
        for cs in self.T.callsites(f):
            self.calls.setdefault(id(cs.node), []).append(cs)
        self.muts: List[Tuple[AV, Site]] = []
        self.ret: AV = EMPTY

    # ---------------------------------------------------------------- driver
    def run(self):
        f = self.f
        a = f.node.args
        for x in a.posonlyargs + a.args + a.kwonlyargs:
            if x.arg == self.selfname:
                self.setenv(x.arg, frozenset({("S", f.qualname)}))
            else:
                self.setenv(x.arg, frozenset({("P", f.qualname, x.arg)}))
        if a.vararg:
            at = ("CONT", id(a.vararg))
            self.setenv(a.vararg.arg, frozenset({at}))
            self.o.add_contents(at, frozenset({("P", f.qualname, a.vararg.arg)}))
        if a.kwarg:
            at = ("CONT", id(a.kwarg))
            self.setenv(a.kwarg.arg, frozenset({at}))
            self.o.add_contents(at, frozenset({("P", f.qualname, a.kwarg.arg)}))
        # closure variables of the enclosing function
        if f.parent and f.parent in self.o.env:
            for k, v in self.o.env[f.parent].items():
                if k not in self.env:
                    self.env[k] = v
        for _ in range(2):
            for st in f.body:
                self.stmt(st)
        s = self.summary
        if self.ret != s.ret:
            s.ret = s.ret | self.ret
            self.o.changed = True
        old = {(r, id(site.node)) for r, site in s.mutations}
        for r, site in self.muts:
            if (r, id(site.node)) not in old:
                s.mutations = [(rr, ss) for rr, ss in s.mutations if id(ss.node) != id(site.node)] + [(r, site)]
                self.o.changed = True

    def setenv(self, name, val: AV):
        old = self.env.get(name, EMPTY)
        new = old | val
        if new != old:
            self.env[name] = new
            self.o.changed = True

    # ------------------------------------------------------------ statements
    def stmt(self, st):
        if isinstance(st, (ast.FunctionDef, ast.AsyncFunctionDef)):
            fi = self.ix.func_of_node.get(id(st))
            self.setenv(st.name, frozenset({("FUNC", fi.qualname)}) if fi else UNKNOWN)
            return
        if isinstance(st, ast.ClassDef):
            return
        if isinstance(st, ast.Return):
            if st.value is not None:
                self.ret = self.ret | self.ev(st.value)
            return
        if isinstance(st, ast.Assign):
            v = self.ev(st.value)
            for t in st.targets:
                self.assign(t, v, st.value, st)
            return
        if isinstance(st, ast.AnnAssign):
            if st.value is not None:
                self.assign(st.target, self.ev(st.value), st.value, st)
            return
        if isinstance(st, ast.AugAssign):
            v = self.ev(st.value)
            t = st.target
            if isinstance(t, ast.Name):
                cur = self.env.get(t.id, EMPTY)
                # x += y on a container mutates it in place
                if cur:
                    self.mutation(cur, st, f"augmented assignment to `{t.id}`")
                    for a in cur:
                        if isinstance(a, tuple) and a[0] == "CONT":
                            self.o.add_contents(a, self.o.contents_of(v))
                self.setenv(t.id, v if not cur else EMPTY)
            else:
                self.store(t, v, st)
            return
        if isinstance(st, ast.Delete):
            for t in st.targets:
                if isinstance(t, (ast.Attribute, ast.Subscript)):
                    self.mutation(self.ev(t.value), st, f"del {ast.unparse(t)}")
            return
        if isinstance(st, ast.Expr):
            v = st.value
            if isinstance(v, (ast.Yield, ast.YieldFrom)):
                if v.value is not None:
                    val = self.ev(v.value)
                    at = ("CONT", id(self.f.node))
                    self.o.add_contents(at, val if isinstance(v, ast.Yield) else self.o.contents_of(val))
                    self.ret = self.ret | {at}
            else:
                self.ev(v)
            return
        if isinstance(st, ast.If):
            self.ev(st.test)
            for s in st.body + st.orelse:
                self.stmt(s)
            return
        if isinstance(st, (ast.For, ast.AsyncFor)):
            it = self.ev(st.iter)
            self.assign(st.target, self.o.contents_of(it), None, st)
            for s in st.body + st.orelse:
                self.stmt(s)
            return
        if isinstance(st, ast.While):
            self.ev(st.test)
            for s in st.body + st.orelse:
                self.stmt(s)
            return
        if isinstance(st, (ast.With, ast.AsyncWith)):
            for it in st.items:
                v = self.ev(it.context_expr)
                if it.optional_vars is not None:
                    self.assign(it.optional_vars, v, None, st)
            for s in st.body:
                self.stmt(s)
            return
        if isinstance(st, ast.Try):
            for s in st.body:
                self.stmt(s)
            for h in st.handlers:
                if h.name:
                    self.setenv(h.name, frozenset({"FRESH"}))
                for s in h.body:
                    self.stmt(s)
            for s in st.orelse + st.finalbody:
                self.stmt(s)
            return
        if isinstance(st, ast.Raise):
            if st.exc is not None:
                self.ev(st.exc)
            return
        if isinstance(st, ast.Assert):
            self.ev(st.test)
            return

    def assign(self, target, v: AV, value_node, st):
        if isinstance(target, ast.Name):
            self.setenv(target.id, v)
        elif isinstance(target, (ast.Tuple, ast.List)):
            if isinstance(value_node, (ast.Tuple, ast.List)) and len(value_node.elts) == len(target.elts):
                for t, e in zip(target.elts, value_node.elts):
                    self.assign(t, self.ev(e), e, st)
            else:
                c = self.o.contents_of(v)
                for t in target.elts:
                    self.assign(t.value if isinstance(t, ast.Starred) else t, c, None, st)
        elif isinstance(target, ast.Starred):
            self.assign(target.value, v, None, st)
        else:
            self.store(target, v, st)

    def _reaching_values(self, name: str, st) -> Optional[AV]:
        """Flow-sensitive value of a local at a statement, when every binding of
        the name in this function is a plain `name = expr`: the join over the
        assignments that reach the statement (a variable re-used on an earlier,
        returning path does not count).  None when that cannot be decided."""
        from .cfg import CFG, iter_stmts
        f = self.f
        if isinstance(f.node, ast.Lambda) or name in f.all_params:
            return None
        defs = []
        for n in ast.walk(f.node):
            if isinstance(n, ast.Name) and n.id == name and isinstance(n.ctx, (ast.Store, ast.Del)):
                holder = None
                for s_ in iter_stmts(f.body):
                    if isinstance(s_, ast.Assign) and len(s_.targets) == 1 and s_.targets[0] is n:
                        holder = s_
                if holder is None:
                    return None  # bound by a loop, a with, an unpacking, ...
                defs.append(holder)
            if isinstance(n, (ast.FunctionDef, ast.Lambda)) and n is not f.node and any(isinstance(x, ast.Name) and x.id == name for x in ast.walk(n)):
                return None  # shared with a closure
        if not defs:
            return None
        cfg = getattr(self, "_cfg", None)
        if cfg is None:
            cfg = self._cfg = CFG(f.body)
        here = cfg.node(st)
        if here is None:
            return None
        nodes = {id(d): cfg.node(d) for d in defs}
        if any(v is None for v in nodes.values()):
            return None
        out = EMPTY
        hit = False
        for d in defs:
            others = [nodes[id(o)] for o in defs if o is not d]
            if here in cfg.reachable_from(nodes[id(d)], removed_nodes=others):
                out = out | self.ev(d.value)
                hit = True
        return out if hit else None

    def store(self, target, v: AV, st):
        if isinstance(target, ast.Attribute):
            base = self.ev(target.value)
            if isinstance(target.value, ast.Name) and target.value.id != self.selfname:
                rv = self._reaching_values(target.value.id, st)
                if rv is not None:
                    base = rv
            if isinstance(target.value, ast.Name) and target.value.id == self.selfname and self.f.cls:
                self.o._join_store(self.o.class_stores, (self.f.cls, target.attr), v)
            for a in base:
                if isinstance(a, tuple) and a[0] == "OBJ":
                    self.o._join_store(self.o.obj_stores, (a[1], target.attr), v)
            self.mutation(base, st, f"store to attribute `{ast.unparse(target)}`", attr=target.attr)
        elif isinstance(target, ast.Subscript):
            base = self.ev(target.value)
            self.ev(target.slice)
            for a in base:
                if isinstance(a, tuple) and a[0] in ("CONT", "P"):
                    self.o.add_contents(a, v if not isinstance(target.slice, ast.Slice) else self.o.contents_of(v))
            self.mutation(base, st, f"store to item `{ast.unparse(target)}`")

    def mutation(self, recv: AV, node, desc, attr=None):
        if not recv:
            return
        site = Site(self.f, node, "mutation", desc + (f" [attr {attr}]" if attr else ""))
        for i, (r, s) in enumerate(self.muts):
            if s.node is node and s.desc == site.desc:
                self.muts[i] = (r | recv, s)
                return
        self.muts.append((recv, site))

    # ----------------------------------------------------------- expressions
    def ev(self, e) -> AV:
        o = self.o
        if e is None or isinstance(e, ast.Constant):
            return EMPTY
        if isinstance(e, ast.Name):
            if e.id in self.env:
                return self.env[e.id]
            r = self.ix.resolve_name(self.f.module, e.id, self.f)
            if r is not None:
                if r[0] in ("class",):
                    return frozenset({("CLASS", r[1])})
                if r[0] == "func":
                    return frozenset({("FUNC", r[1])})
                if r[0] == "var":
                    return frozenset({"GLOBAL"})
                if r[0] in ("module", "ext"):
                    return frozenset({("EXT", r[1])})
            return EMPTY  # builtins
        if isinstance(e, ast.JoinedStr):
            for v in e.values:
                if isinstance(v, ast.FormattedValue):
                    self.ev(v.value)
            return EMPTY
        if isinstance(e, (ast.List, ast.Tuple, ast.Set)):
            at = ("CONT", id(e))
            for x in e.elts:
                if isinstance(x, ast.Starred):
                    o.add_contents(at, o.contents_of(self.ev(x.value)))
                else:
                    o.add_contents(at, self.ev(x))
            return frozenset({at})
        if isinstance(e, ast.Dict):
            at = ("CONT", id(e))
            for k, v in zip(e.keys, e.values):
                if k is None:
                    o.add_contents(at, o.contents_of(self.ev(v)))
                else:
                    self.ev(k)
                    o.add_contents(at, self.ev(v))
            return frozenset({at})
        if isinstance(e, (ast.ListComp, ast.SetComp, ast.GeneratorExp, ast.DictComp)):
            at = ("CONT", id(e))
            for g in e.generators:
                it = self.ev(g.iter)
                self.assign(g.target, o.contents_of(it), None, e)
                for c in g.ifs:
                    self.ev(c)
            if isinstance(e, ast.DictComp):
                self.ev(e.key)
                o.add_contents(at, self.ev(e.value))
            else:
                o.add_contents(at, self.ev(e.elt))
            return frozenset({at})
        if isinstance(e, ast.IfExp):
            self.ev(e.test)
            return self.ev(e.body) | self.ev(e.orelse)
        if isinstance(e, ast.BoolOp):
            out = EMPTY
            for v in e.values:
                out = out | self.ev(v)
            return out
        if isinstance(e, ast.UnaryOp):
            self.ev(e.operand)
            return EMPTY if isinstance(e.op, ast.Not) else frozenset({"FRESH"})
        if isinstance(e, ast.BinOp):
            a, b = self.ev(e.left), self.ev(e.right)
            if not a and not b:
                return EMPTY
            if isinstance(e.op, (ast.BitAnd, ast.BitXor, ast.LShift, ast.RShift, ast.Pow, ast.Div, ast.FloorDiv, ast.Mod, ast.MatMult)) or (isinstance(e.op, (ast.BitOr, ast.Sub, ast.Mult)) and not (a | b) - {"FRESH"}):
                return frozenset({"FRESH"}) if (a | b) else EMPTY
            at = ("CONT", id(e))
            o.add_contents(at, o.contents_of(a) | o.contents_of(b))
            return frozenset({at})
        if isinstance(e, ast.Compare):
            self.ev(e.left)
            for c in e.comparators:
                self.ev(c)
            return EMPTY
        if isinstance(e, ast.Lambda):
            fi = self.ix.func_of_node.get(id(e))
            return frozenset({("FUNC", fi.qualname)}) if fi else UNKNOWN
        if isinstance(e, ast.Starred):
            return self.ev(e.value)
        if isinstance(e, (ast.Yield, ast.YieldFrom, ast.Await)):
            if e.value is not None:
                v = self.ev(e.value)
                at = ("CONT", id(self.f.node))
                o.add_contents(at, v if isinstance(e, ast.Yield) else o.contents_of(v))
                self.ret = self.ret | {at}
            return EMPTY
        if isinstance(e, ast.NamedExpr):
            v = self.ev(e.value)
            self.assign(e.target, v, e.value, e)
            return v
        if isinstance(e, ast.Slice):
            for x in (e.lower, e.upper, e.step):
                if x is not None:
                    self.ev(x)
            return EMPTY
        if isinstance(e, ast.Subscript):
            base = self.ev(e.value)
            self.ev(e.slice)
            if isinstance(e.slice, ast.Slice):
                at = ("CONT", id(e))
                o.add_contents(at, o.contents_of(base))
                return frozenset({at})
            return self.getitem(e, base)
        if isinstance(e, ast.Attribute):
            base = self.ev(e.value)
            return self.attr(e, base)
        if isinstance(e, ast.Call):
            return self.call(e)
        return UNKNOWN

    def getitem(self, e, base: AV) -> AV:
        out = set()
        for a in base:
            if isinstance(a, tuple) and a[0] == "OBJ":
                k = self.o.site_class.get(a[1])
                gi = self.ix.find_method(k, "__getitem__") if k else None
                if gi is not None and gi.qualname in self.o.summaries:
                    out |= self.o.subst(self.o.summaries[gi.qualname].ret, gi, frozenset({a}), {}, None)
                else:
                    out.add("UNKNOWN")
            else:
                out |= self.o.contents_of(frozenset({a}))
        return frozenset(out)

    def attr(self, e: ast.Attribute, base: AV) -> AV:
        out = set()
        for a in self.o.attr_of(base, e.attr):
            if isinstance(a, tuple) and a[0] == "SELFATTR":
                if a[1] == self.f.qualname:
                    out |= self.self_attr(a[2])
                else:
                    ff = self.ix.functions.get(a[1])
                    out |= _FuncEval.self_attr_of(self.o, ff, a[2]) if ff is not None else UNKNOWN
            else:
                out.add(a)
        # module attribute
        if any(isinstance(a, tuple) and a[0] == "EXT" for a in base):
            out = {x for x in out if not (isinstance(x, str) and x == "UNKNOWN")}
            for a in base:
                if isinstance(a, tuple) and a[0] == "EXT":
                    r = self.ix.resolve_in_module(a[1], e.attr) if a[1] in self.ix.modules else None
                    if r and r[0] == "class":
                        out.add(("CLASS", r[1]))
                    elif r and r[0] == "func":
                        out.add(("FUNC", r[1]))
                    elif r and r[0] == "var":
                        out.add("GLOBAL")
                    else:
                        out.add(("EXT", f"{a[1]}.{e.attr}"))
        if any(isinstance(a, tuple) and a[0] == "CLASS" for a in base):
            for a in base:
                if isinstance(a, tuple) and a[0] == "CLASS":
                    fi = self.ix.find_method(a[1], e.attr)
                    if fi is not None:
                        out.add(("FUNC", fi.qualname))
                    else:
                        out.add("GLOBAL")
        return frozenset(out)

    def self_attr(self, attr: str) -> AV:
        return _FuncEval.self_attr_of(self.o, self.f, attr)

    @staticmethod
    def self_attr_of(o, f, attr: str) -> AV:
        """Value of self.<attr> inside a method: join of every store through self in the hierarchy."""
        cls = f.cls
        if cls is None and f.parent:
            p = o.ix.functions.get(f.parent)
            cls = p.cls if p else None
        if cls is None:
            return UNKNOWN
        ix = o.ix
        self_atom = frozenset({("S", f.qualname)})
        fa = ix.find_attr(cls, attr)
        fld = attr
        if fa and fa[0] == "property":
            f2 = ix.property_field(cls, attr)
            if f2 is None:
                getter = ix.find_method(cls, attr)
                s = o.summaries.get(getter.qualname)
                return o.subst(s.ret, getter, self_atom, {}, None) if s else UNKNOWN
            fld = f2
        elif fa and fa[0] == "method":
            fi = ix.find_method(cls, attr)
            return frozenset({("BOUND", fi.qualname)})
        out = set()
        found = False
        fam = set(ix.mro(cls)) | set(ix.subclasses(cls))
        for c in fam:
            v = o.class_stores.get((c, fld))
            if v is not None:
                found = True
                out |= v
        if not found:
            if fa and fa[0] == "classattr":
                return frozenset({"GLOBAL"})
            # attribute stored externally on objects of this class (job.traces = ...)
            for (site, a2), v in o.obj_stores.items():
                if a2 == fld and o.site_class.get(site) in fam:
                    out |= v
                    found = True
            if not found:
                return UNKNOWN
        return frozenset(out)

    # ------------------------------------------------------------------ calls
    def call(self, e: ast.Call) -> AV:
        o, ix = self.o, self.ix
        fn = e.func
        argv = []
        for a in e.args:
            if isinstance(a, ast.Starred):
                argv.append(("*", self.ev(a.value)))
            else:
                argv.append((None, self.ev(a)))
        kwv = {}
        for k in e.keywords:
            v = self.ev(k.value)
            if k.arg:
                kwv[k.arg] = v
            else:
                kwv["**"] = v
        sites = self.calls.get(id(e), [])
        # ---- method call on a receiver
        recv = None
        mname = None
        if isinstance(fn, ast.Attribute):
            recv = self.ev(fn.value)
            mname = fn.attr
        else:
            fval = self.ev(fn)
        strong = [cs for cs in sites if not cs.weak and cs.kind != "property"]
        if not any(cs.targets or cs.classes for cs in strong):
            # receiver of unknown type: every in-package method of that name (conservative join)
            weak = [cs for cs in sites if cs.weak and cs.targets and all(t.qualname in o.summaries for t in cs.targets)]
            if weak:
                strong = weak
        if strong and any(cs.targets or cs.classes for cs in strong):
            out = set()
            for cs in strong:
                if cs.kind == "constructor":
                    for k in cs.classes:
                        atom = ("OBJ", id(e))
                        o.site_class[id(e)] = k
                        o.site_info[id(e)] = (self.f, e)
                        init = ix.find_method(k, "__init__")
                        if init is not None:
                            bound = self.bind(init, argv, kwv, skip_self=True)
                            sa = o.site_args.setdefault(id(e), {})
                            for p, v in bound.items():
                                if sa.get(p, EMPTY) | v != sa.get(p, EMPTY):
                                    sa[p] = sa.get(p, EMPTY) | v
                                    o.changed = True
                            self.record_call(init, frozenset({atom}), bound)
                        out.add(atom)
                    continue
                for t in cs.targets:
                    if t.qualname not in o.summaries:
                        # outside the analysed set (excluded module): unknown effect
                        out.add("UNKNOWN")
                        continue
                    skip = t.cls is not None and not t.is_staticmethod
                    if cs.kind == "visit":
                        r = recv if recv is not None else UNKNOWN
                        bound = self.bind(t, argv, kwv, skip_self=True)
                    elif cs.kind in ("method", "builder"):
                        r = recv if (recv is not None and skip) else None
                        if recv is None and skip:
                            # gate_def(*args) -> __call__ : receiver is the called value
                            r = self.ev(fn)
                        bound = self.bind(t, argv, kwv, skip_self=skip)
                    else:
                        r = None
                        if skip and isinstance(fn, ast.Attribute):
                            r = recv
                        bound = self.bind(t, argv, kwv, skip_self=skip and r is not None)
                    self.record_call(t, r, bound)
                    out |= o.subst(o.summaries[t.qualname].ret, t, r, bound, None)
            return frozenset(out)
        # ---- calls of function values held in variables
        if not isinstance(fn, ast.Attribute):
            out = set()
            handled = False
            for a in fval:
                if isinstance(a, tuple) and a[0] == "FUNC" and a[1] in o.summaries:
                    t = ix.functions[a[1]]
                    bound = self.bind(t, argv, kwv, skip_self=False)
                    self.record_call(t, None, bound)
                    out |= o.subst(o.summaries[a[1]].ret, t, None, bound, None)
                    handled = True
            if handled:
                return frozenset(out)
        # ---- library / builtin calls
        name = mname if mname else (fn.id if isinstance(fn, ast.Name) else None)
        allargs = [v for _, v in argv] + list(kwv.values())
        if recv is not None and mname in MUTATING_METHODS and not any(isinstance(a, tuple) and a[0] == "EXT" for a in recv):
            self.mutation(recv, e, f"call of mutating method `.{mname}()` on `{ast.unparse(fn.value)}`")
            if mname in ("append", "add", "appendleft", "insert"):
                val = allargs[-1] if allargs else EMPTY
                for a in recv:
                    if isinstance(a, tuple) and a[0] in ("CONT", "P"):
                        o.add_contents(a, val)
            elif mname in ("extend", "update", "extendleft"):
                for a in recv:
                    if isinstance(a, tuple) and a[0] in ("CONT", "P"):
                        for v in allargs:
                            o.add_contents(a, o.contents_of(v))
            elif mname == "setdefault" and allargs:
                for a in recv:
                    if isinstance(a, tuple) and a[0] in ("CONT", "P"):
                        o.add_contents(a, allargs[-1])
                return o.contents_of(recv) | allargs[-1]
            if mname in ("pop", "popleft", "popitem"):
                return o.contents_of(recv)
            return EMPTY
        if recv is not None:
            ext_recv = any(isinstance(a, tuple) and a[0] == "EXT" for a in recv)
            if mname in ("copy",) and not ext_recv:
                at = ("CONT", id(e))
                o.add_contents(at, o.contents_of(recv))
                return frozenset({at})
            if mname in ("values", "items", "keys", "get", "__iter__") and not ext_recv:
                if mname == "get":
                    return o.contents_of(recv) | (allargs[1] if len(allargs) > 1 else EMPTY)
                at = ("CONT", id(e))
                o.add_contents(at, o.contents_of(recv))
                return frozenset({at})
            if ext_recv:
                tail = mname
                if tail in COPY_CALLS or tail in ("copy", "deepcopy"):
                    at = ("CONT", id(e))
                    for v in allargs:
                        o.add_contents(at, o.contents_of(v))
                    return frozenset({at})
                if tail in PASS_ITER_CALLS:
                    at = ("CONT", id(e))
                    for v in allargs:
                        o.add_contents(at, o.contents_of(v) if tail != "from_iterable" else o.contents_of(o.contents_of(v)))
                    return frozenset({at})
                return frozenset({"FRESH"})
            if mname == "__new__":
                at = ("OBJ", id(e))
                for a in recv:
                    if isinstance(a, tuple) and a[0] == "CLASS":
                        o.site_class[id(e)] = a[1]
                        o.site_info[id(e)] = (self.f, e)
                return frozenset({at})
            # string / numeric methods on immutable values
            if not recv:
                return EMPTY
            # unresolved method call on a tracked receiver
            g = recv
            # methods of immutable builtin values (float.is_integer, str.startswith, ..) have no effect on the IR
            rtypes = o.T.expr_types.get(id(e.func.value)) if isinstance(e.func, ast.Attribute) else None
            builtin_recv = bool(rtypes) and all(t in IMMUTABLE_BUILTINS for t in rtypes)
            if mname not in PURE_VALUE_CALLS and not builtin_recv and mname not in IMMUTABLE_METHODS:
                o.unresolved.append((self.f, e, g))
            return UNKNOWN if any(a in ("INPUT", "UNKNOWN") or (isinstance(a, tuple) and a[0] == "P") for a in g) else frozenset({"FRESH"})
        if name in COPY_CALLS:
            at = ("CONT", id(e))
            for v in allargs:
                o.add_contents(at, o.contents_of(v))
            return frozenset({at})
        if name in PASS_ITER_CALLS:
            at = ("CONT", id(e))
            for v in allargs:
                o.add_contents(at, o.contents_of(v))
            return frozenset({at})
        if name in ("setattr", "delattr") and argv:
            self.mutation(argv[0][1], e, f"{name}() on `{ast.unparse(e.args[0])}`")
            return EMPTY
        if name == "super":
            return frozenset({("S", self.f.qualname)})
        if name in PURE_CALLS:
            if name == "getattr" and argv:
                return self.o.attr_of(argv[0][1], "?") if False else UNKNOWN
            if name == "next" and argv:
                return o.contents_of(argv[0][1])
            return EMPTY if name not in ("slice",) else EMPTY
        if isinstance(fn, ast.Name) and any(isinstance(a, tuple) and a[0] == "CLASS" for a in fval):
            # class object called without a resolved constructor site
            at = ("OBJ", id(e))
            for a in fval:
                if isinstance(a, tuple) and a[0] == "CLASS":
                    o.site_class[id(e)] = a[1]
                    o.site_info[id(e)] = (self.f, e)
            return frozenset({at})
        if isinstance(fn, ast.Name) and any(isinstance(a, tuple) and a[0] == "EXT" for a in fval):
            return frozenset({"FRESH"})
        # calling an unknown value (e.g. the value of a property holding a callable)
        return frozenset({"FRESH"}) if not isinstance(fn, ast.Name) or fn.id not in self.env else UNKNOWN

    def bind(self, t: FuncInfo, argv, kwv, skip_self: bool) -> Dict[str, AV]:
        params = t.params
        if skip_self and params:
            params = params[1:]
        elif t.cls is not None and not t.is_staticmethod and params and not skip_self:
            # unbound call Class.method(obj, ...): first argument is self -- keep positional mapping
            pass
        bound: Dict[str, AV] = {}
        a = t.node.args
        i = 0
        for star, v in argv:
            if star:
                c = self.o.contents_of(v)
                for p in params[i:]:
                    bound[p] = bound.get(p, EMPTY) | c
                if a.vararg:
                    bound[a.vararg.arg] = bound.get(a.vararg.arg, EMPTY) | c
                i = len(params)
                continue
            if i < len(params):
                bound[params[i]] = bound.get(params[i], EMPTY) | v
            elif a.vararg:
                bound[a.vararg.arg] = bound.get(a.vararg.arg, EMPTY) | v
            i += 1
        names = set(t.all_params)
        for k, v in kwv.items():
            if k == "**":
                c = self.o.contents_of(v)
                for p in t.all_params:
                    if p not in bound and p != (t.params[0] if skip_self and t.params else None):
                        bound[p] = bound.get(p, EMPTY) | c
                continue
            if k in names:
                bound[k] = bound.get(k, EMPTY) | v
            elif a.kwarg:
                bound[a.kwarg.arg] = bound.get(a.kwarg.arg, EMPTY) | v
        return bound

    def record_call(self, t: FuncInfo, recv: Optional[AV], bound: Dict[str, AV]):
        o = self.o
        for p, v in bound.items():
            o._join_store(o.param_val, (t.qualname, p), v)
        # parameters not passed keep their defaults (immutable constants contribute nothing)
        if recv is not None:
            o._join_store(o.self_val, t.qualname, recv)
