"""E7 -- information-flow necessity ("field flow").

For a *transformer* (a set of functions: a Visitor subclass plus the helper
functions it reaches) decide, per IR class K and semantic field f,

  (a) READ:  is there a read of f on a K-typed receiver (or the K-typed value
      passed on whole) in a position that influences the transformer's result;
  (b) CTOR:  where the transformer rebuilds a K from a K-typed input, does the
      constructor argument that initialises f depend (data or control) on the
      input's f.

Both are necessary conditions of "the pass preserves f".  The analysis is
flow-insensitive inside a function (lenient: it over-approximates
dependence, so it under-reports violations and never invents one).
"""

from __future__ import annotations

import ast
from typing import Dict, Iterable, List, Optional, Set, Tuple

from .index import Index, FuncInfo, AnalysisError
from .typing import Typer
from .cfg import walk_no_nested, iter_stmts

MUTATORS = {
    "append", "extend", "update", "add", "insert", "appendleft", "extendleft",
    "setdefault", "__setitem__",
}
NO_FLOW_CALLS = {"isinstance", "type", "id", "print", "repr", "hasattr", "issubclass"}
CONTAINER_PROTOCOL_CALLS = {"len", "iter", "list", "tuple", "enumerate", "reversed", "sorted", "sum", "any", "all"}


def names_in(expr) -> Set[str]:
    return {n.id for n in walk_no_nested(expr) if isinstance(n, ast.Name)}


def root_name(expr) -> Optional[str]:
    """a.b[c].d -> 'a'; call results -> None"""
    while True:
        if isinstance(expr, ast.Attribute):
            expr = expr.value
        elif isinstance(expr, ast.Subscript):
            expr = expr.value
        elif isinstance(expr, ast.Starred):
            expr = expr.value
        else:
            break
    return expr.id if isinstance(expr, ast.Name) else None


class FuncFlow:
    """Relevance and def-use information for one function."""

    def __init__(self, ix: Index, typer: Typer, f: FuncInfo, self_attr_loaded=lambda name: True):
        self.ix, self.T, self.f = ix, typer, f
        self.selfname = f.params[0] if (f.cls and f.params and not f.is_staticmethod) else None
        self.defs: Dict[str, List[ast.AST]] = {}  # var -> value expressions that feed it
        self.sink_exprs: List[ast.AST] = []  # expressions that directly influence the result
        self.cond_exprs: List[ast.AST] = []
        self.stmt_ctrl: Dict[int, List[ast.AST]] = {}  # id(stmt) -> controlling tests
        self.mutations: List[Tuple[str, List[ast.AST], ast.AST]] = []  # (root var, value exprs, stmt)
        self.self_stores: List[Tuple[str, ast.AST]] = []
        self.parent: Dict[int, ast.AST] = {}
        self.self_attr_loaded = self_attr_loaded
        self.param_inputs: Optional[Set[str]] = None  # None = every parameter is an input
        self._collect()
        self._relevance()
        self._inputs()

    # -------------------------------------------------------------- collect
    def _add_def(self, target, value_exprs):
        if isinstance(target, ast.Name):
            self.defs.setdefault(target.id, []).extend(value_exprs)
        elif isinstance(target, (ast.Tuple, ast.List)):
            for e in target.elts:
                self._add_def(e.value if isinstance(e, ast.Starred) else e, value_exprs)
        elif isinstance(target, (ast.Attribute, ast.Subscript)):
            r = root_name(target)
            if r is not None:
                if r == self.selfname and isinstance(target, ast.Attribute) and isinstance(target.value, ast.Name):
                    for v in value_exprs:
                        self.self_stores.append((target.attr, v))
                else:
                    self.mutations.append((r, list(value_exprs), target))

    def _collect(self):
        body = self.f.body
        for n in walk_no_nested(self.f.node):
            for ch in ast.iter_child_nodes(n):
                self.parent[id(ch)] = n
        self._ctrl(body, [])
        for st in iter_stmts(body):
            if isinstance(st, ast.Return) and st.value is not None:
                self.sink_exprs.append(st.value)
            elif isinstance(st, ast.Assign):
                for t in st.targets:
                    self._add_def(t, [st.value])
            elif isinstance(st, ast.AnnAssign) and st.value is not None:
                self._add_def(st.target, [st.value])
            elif isinstance(st, ast.AugAssign):
                self._add_def(st.target, [st.value, st.target])
                r = root_name(st.target)
                if isinstance(st.target, ast.Name):
                    # tgt |= src mutates the container bound to tgt
                    self.mutations.append((st.target.id, [st.value], st))
            elif isinstance(st, (ast.For, ast.AsyncFor)):
                self._add_def(st.target, [st.iter])
            elif isinstance(st, (ast.With, ast.AsyncWith)):
                for it in st.items:
                    if it.optional_vars is not None:
                        self._add_def(it.optional_vars, [it.context_expr])
            elif isinstance(st, (ast.If, ast.While)):
                self.cond_exprs.append(st.test)
            elif isinstance(st, ast.Expr):
                v = st.value
                if isinstance(v, (ast.Yield, ast.YieldFrom)):
                    if v.value is not None:
                        self.sink_exprs.append(v.value)
                elif isinstance(v, ast.Call) and isinstance(v.func, ast.Attribute):
                    r = root_name(v.func.value)
                    if r is not None and (v.func.attr in MUTATORS or True):
                        vals = list(v.args) + [k.value for k in v.keywords]
                        self.mutations.append((r, vals, st))
        # expression-level constructs
        for n in walk_no_nested(self.f.node):
            if isinstance(n, (ast.ListComp, ast.SetComp, ast.GeneratorExp, ast.DictComp)):
                for g in n.generators:
                    self._add_def(g.target, [g.iter])
                    self.cond_exprs.extend(g.ifs)
            elif isinstance(n, ast.IfExp):
                self.cond_exprs.append(n.test)
            elif isinstance(n, ast.NamedExpr):
                self._add_def(n.target, [n.value])
            elif isinstance(n, (ast.Yield, ast.YieldFrom)) and n.value is not None:
                if n.value not in self.sink_exprs:
                    self.sink_exprs.append(n.value)
        if isinstance(self.f.node, ast.Lambda):
            self.sink_exprs.append(self.f.node.body)

    def _ctrl(self, stmts, ctrl: List[ast.AST]):
        ctrl = list(ctrl)
        for st in stmts:
            self.stmt_ctrl[id(st)] = list(ctrl)
            if isinstance(st, ast.If):
                self._ctrl(st.body, ctrl + [st.test])
                self._ctrl(st.orelse, ctrl + [st.test])
                if self._has_exit(st.body) or self._has_exit(st.orelse):
                    ctrl = ctrl + [st.test]
            elif isinstance(st, ast.While):
                self._ctrl(st.body, ctrl + [st.test])
                self._ctrl(st.orelse, ctrl)
            elif isinstance(st, (ast.For, ast.AsyncFor)):
                self._ctrl(st.body, ctrl + [st.iter])
                self._ctrl(st.orelse, ctrl)
            elif isinstance(st, (ast.With, ast.AsyncWith)):
                self._ctrl(st.body, ctrl)
            elif isinstance(st, ast.Try):
                self._ctrl(st.body, ctrl)
                for h in st.handlers:
                    self._ctrl(h.body, ctrl)
                self._ctrl(st.orelse, ctrl)
                self._ctrl(st.finalbody, ctrl)

    @staticmethod
    def _has_exit(stmts) -> bool:
        for st in iter_stmts(stmts):
            if isinstance(st, (ast.Return, ast.Raise, ast.Break, ast.Continue)):
                return True
        return False

    # ------------------------------------------------------------- relevance
    def _relevance(self):
        """Backward closure: which local names influence the result."""
        R: Set[str] = set()
        rel_exprs: List[ast.AST] = []
        seen_expr: Set[int] = set()

        def add_expr(e):
            if e is None or id(e) in seen_expr:
                return False
            seen_expr.add(id(e))
            rel_exprs.append(e)
            new = names_in(e) - R
            R.update(new)
            return True

        for e in self.sink_exprs + self.cond_exprs:
            add_expr(e)
        for attr, v in self.self_stores:
            if self.self_attr_loaded(attr):
                add_expr(v)
        changed = True
        while changed:
            changed = False
            for var in list(R):
                for v in self.defs.get(var, []):
                    if add_expr(v):
                        changed = True
            for root, vals, st in self.mutations:
                if root in R or root == self.selfname:
                    if root == self.selfname and isinstance(st, ast.Expr):
                        # self.helper(x) as a statement: only mutators of self state count
                        call = st.value
                        if not (isinstance(call.func, ast.Attribute) and call.func.attr in MUTATORS):
                            continue
                    for v in vals:
                        if add_expr(v):
                            changed = True
        self.relevant_names = R
        self.relevant_exprs = rel_exprs
        self._rel_nodes: Set[int] = set()
        for e in rel_exprs:
            for n in walk_no_nested(e):
                self._rel_nodes.add(id(n))

    def is_relevant(self, node) -> bool:
        return id(node) in self._rel_nodes

    # ------------------------------------------------------ input provenance
    PASS_THROUGH_METHODS = {"values", "items", "keys", "get", "copy"}
    PASS_THROUGH_CALLS = {"list", "tuple", "iter", "enumerate", "reversed", "sorted", "zip", "dict", "set"}

    def _inputs(self):
        """Names whose value is (part of) the function's input: parameters and
        what is read from them by attribute / index / iteration."""
        derived = set(p for p in self.f.all_params if p != self.selfname)
        if self.param_inputs is not None:
            derived &= self.param_inputs
        # closure variables of an enclosing function count as inputs too
        changed = True
        while changed:
            changed = False
            for var, exprs in self.defs.items():
                if var in derived:
                    continue
                if any(self._input_expr(e, derived) for e in exprs):
                    derived.add(var)
                    changed = True
        self.input_names = derived

    def _input_expr(self, e, derived) -> bool:
        if isinstance(e, ast.Name):
            return e.id in derived
        if isinstance(e, (ast.Attribute, ast.Subscript, ast.Starred)):
            return self._input_expr(e.value, derived)
        if isinstance(e, ast.Call):
            fn = e.func
            if isinstance(fn, ast.Attribute) and fn.attr in self.PASS_THROUGH_METHODS:
                return self._input_expr(fn.value, derived)
            if isinstance(fn, ast.Name) and fn.id in self.PASS_THROUGH_CALLS and e.args:
                return any(self._input_expr(a, derived) for a in e.args)
            return False
        if isinstance(e, ast.IfExp):
            return self._input_expr(e.body, derived) or self._input_expr(e.orelse, derived)
        if isinstance(e, ast.BoolOp):
            return any(self._input_expr(v, derived) for v in e.values)
        return False

    def is_input(self, expr) -> bool:
        return self._input_expr(expr, self.input_names)

    # ------------------------------------------------------ dependence of an expression
    def depends(self, expr, extra_ctrl_stmt=None) -> Tuple[Set[int], List[ast.AST]]:
        """All AST nodes (ids) an expression depends on through local def-use
        chains, plus the list of those expression roots."""
        seen_vars: Set[str] = set()
        roots: List[ast.AST] = []
        stack = [expr]
        seen_e: Set[int] = set()
        while stack:
            e = stack.pop()
            if e is None or id(e) in seen_e:
                continue
            seen_e.add(id(e))
            roots.append(e)
            for nm in names_in(e):
                if nm not in seen_vars:
                    seen_vars.add(nm)
                    stack.extend(self.defs.get(nm, []))
                    for root, vals, st in self.mutations:
                        if root == nm:
                            stack.extend(vals)
        ids: Set[int] = set()
        for r in roots:
            for n in walk_no_nested(r):
                ids.add(id(n))
        return ids, roots

    def enclosing_stmt(self, node) -> Optional[ast.stmt]:
        n = node
        while n is not None and not isinstance(n, ast.stmt):
            n = self.parent.get(id(n))
        return n

    def control_tests(self, node) -> List[ast.AST]:
        st = self.enclosing_stmt(node)
        tests = list(self.stmt_ctrl.get(id(st), [])) if st is not None else []
        # IfExp / comprehension conditions around the node
        n = node
        while n is not None and not isinstance(n, ast.stmt):
            p = self.parent.get(id(n))
            if isinstance(p, ast.IfExp) and n is not p.test:
                tests.append(p.test)
            n = p
        return tests


class Transformer:
    """A set of functions analysed together."""

    def __init__(self, ix: Index, typer: Typer, funcs: Iterable[FuncInfo], name: str = ""):
        self.ix, self.T = ix, typer
        self.name = name
        self.funcs: List[FuncInfo] = list(dict.fromkeys(funcs))
        if not self.funcs:
            raise AnalysisError(f"transformer {name!r}: no functions (anchor vanished)")
        self.qualnames = {f.qualname for f in self.funcs}
        loaded = self._self_attrs_loaded()
        self.flows: Dict[str, FuncFlow] = {
            f.qualname: FuncFlow(ix, typer, f, self_attr_loaded=lambda a, L=loaded: a in L)
            for f in self.funcs
        }
        self._member_cache: Dict[Tuple[str, str], Set[str]] = {}
        self._interprocedural_inputs()

    def _interprocedural_inputs(self):
        """A helper's parameter is input-derived only if some call inside the
        transformer passes an input-derived argument for it.  visit_* handlers
        and functions never called from inside the transformer are roots."""
        T = self.T
        edges = []  # (caller flow, arg expr, callee qualname, param)
        called = set()
        for f in self.funcs:
            fl = self.flows[f.qualname]
            for cs in T.callsites(f):
                if cs.kind not in ("function", "method", "visit") or not isinstance(cs.node, ast.Call):
                    continue
                for t in cs.targets:
                    if t.qualname not in self.qualnames:
                        continue
                    called.add(t.qualname)
                    params = t.params
                    if t.cls is not None and not t.is_staticmethod and params:
                        params = params[1:]
                    for i, a in enumerate(cs.node.args):
                        if isinstance(a, ast.Starred):
                            for p in params[i:]:
                                edges.append((fl, a.value, t.qualname, p))
                            break
                        if i < len(params):
                            edges.append((fl, a, t.qualname, params[i]))
                    for k in cs.node.keywords:
                        if k.arg:
                            edges.append((fl, k.value, t.qualname, k.arg))
        helpers = [
            f for f in self.funcs
            if f.qualname in called and not f.name.startswith("visit_") and not f.parent
        ]
        for f in helpers:
            fl = self.flows[f.qualname]
            fl.param_inputs = set()
            fl._inputs()
        changed = True
        while changed:
            changed = False
            for fl, a, tq, p in edges:
                tfl = self.flows[tq]
                if tfl.param_inputs is None or p in tfl.param_inputs:
                    continue
                if fl.is_input(a):
                    tfl.param_inputs.add(p)
                    tfl._inputs()
                    changed = True

    @classmethod
    def from_entry(cls, ix: Index, typer: Typer, entries: List[str], modules: Optional[List[str]] = None, name="", keep=None):
        """Functions reachable from ``entries`` through resolved calls, restricted to
        the entry functions' modules (plus ``modules``)."""
        g = typer.graph(weak=False)
        mods = set(modules or [])
        start = []
        for q in entries:
            f = ix.func(q)
            mods.add(f.module)
            start.append(q)
        seen = set()
        stack = list(start)
        while stack:
            q = stack.pop()
            if q in seen:
                continue
            f = ix.functions.get(q)
            if f is None or f.module not in mods:
                continue
            if keep is not None and not keep(f):
                continue
            seen.add(q)
            stack.extend(g.successors(q))
        return cls(ix, typer, [ix.functions[q] for q in sorted(seen)], name=name or entries[0])

    def _self_attrs_loaded(self) -> Set[str]:
        out = set()
        for f in self.funcs:
            if not f.cls or not f.params:
                continue
            s = f.params[0]
            for n in ast.walk(f.node):
                if isinstance(n, ast.Attribute) and isinstance(n.ctx, ast.Load) and isinstance(n.value, ast.Name) and n.value.id == s:
                    out.add(n.attr)
        return out

    # ------------------------------------------------------------ class facts
    def member_fields(self, cls: str, member: str, _depth=0) -> Set[str]:
        """Underscore fields of ``cls`` read when ``obj.member`` is evaluated/called.
        '*' means the object escapes whole."""
        key = (cls, member)
        if key in self._member_cache:
            return self._member_cache[key]
        self._member_cache[key] = set()
        ix = self.ix
        out: Set[str] = set()
        fields = set(ix.init_fields(cls))
        if member in fields:
            out.add(member)
        fi = ix.find_method(cls, member)
        if fi is not None and _depth < 6 and fi.params:
            s = fi.params[0]
            for n in walk_no_nested(fi.node):
                if isinstance(n, ast.Attribute) and isinstance(n.value, ast.Name) and n.value.id == s and isinstance(n.ctx, ast.Load):
                    if n.attr in fields:
                        out.add(n.attr)
                    else:
                        out |= self.member_fields(cls, n.attr, _depth + 1)
            # bare self escape detection
            parents = {}
            for n in walk_no_nested(fi.node):
                for ch in ast.iter_child_nodes(n):
                    parents[id(ch)] = n
            for n in walk_no_nested(fi.node):
                if isinstance(n, ast.Name) and n.id == s and isinstance(n.ctx, ast.Load):
                    p = parents.get(id(n))
                    if isinstance(p, ast.Attribute) and p.value is n:
                        continue
                    if isinstance(p, ast.Call) and isinstance(p.func, ast.Name) and p.func.id in NO_FLOW_CALLS:
                        continue
                    if isinstance(p, ast.Call) and isinstance(p.func, ast.Name) and p.func.id in ("make_item_name",):
                        # name derivation only
                        out |= self.member_fields(cls, "name", _depth + 1)
                        continue
                    out.add("*")
        self._member_cache[key] = out
        return out

    def returned_fields(self, cls: str, member: str, _depth=0) -> Set[str]:
        """Fields whose value (or an attribute of it) is what ``obj.member`` evaluates to
        on some path -- as opposed to fields merely consulted while computing it."""
        ix = self.ix
        fields = set(ix.init_fields(cls))
        if member in fields:
            return {member}
        fi = ix.find_method(cls, member)
        out: Set[str] = set()
        if fi is None or _depth > 5 or not fi.params:
            return out
        s = fi.params[0]

        def base(e):
            while isinstance(e, ast.Attribute) and not (isinstance(e.value, ast.Name) and e.value.id == s):
                e = e.value
            return e

        for st in iter_stmts(fi.body):
            vals = []
            if isinstance(st, ast.Return) and st.value is not None:
                vals = [st.value]
            elif isinstance(st, ast.Expr) and isinstance(st.value, (ast.Yield, ast.YieldFrom)) and st.value.value is not None:
                vals = [st.value.value]
            for v in vals:
                if isinstance(v, ast.Call):
                    f_ = v.func
                    if isinstance(f_, ast.Attribute) and isinstance(f_.value, ast.Name) and f_.value.id == s:
                        out |= self.returned_fields(cls, f_.attr, _depth + 1)
                        continue
                    if isinstance(f_, ast.Name) and f_.id in ("iter", "len", "list", "tuple") and v.args:
                        v = v.args[0]
                    elif isinstance(f_, ast.Attribute):
                        v = f_.value
                if isinstance(v, ast.Subscript):
                    v = v.value
                b = base(v)
                if isinstance(b, ast.Attribute) and isinstance(b.value, ast.Name) and b.value.id == s:
                    if b.attr in fields:
                        out.add(b.attr)
                    else:
                        out |= self.returned_fields(cls, b.attr, _depth + 1)
                elif isinstance(v, (ast.Compare, ast.BoolOp, ast.UnaryOp)):
                    # a predicate over fields (e.g. `fundamental`): the fields it tests
                    for n in ast.walk(v):
                        if isinstance(n, ast.Attribute) and isinstance(n.value, ast.Name) and n.value.id == s:
                            out |= self.returned_fields(cls, n.attr, _depth + 1) if n.attr not in fields else {n.attr}
        return out

    def container_fields(self, cls: str) -> Set[str]:
        out = set()
        for m in ("__iter__", "__getitem__", "__len__"):
            out |= self.member_fields(cls, m)
        return out

    # ------------------------------------------------------------ field reads
    def field_reads(self, cls: str, field: str, unique_untyped=True):
        """Yield (FuncInfo, node, how) for counting reads of ``field`` ('_f') of ``cls``.

        how: 'attr' (x.member covering the field), 'whole' (K-typed value passed
        on whole), 'container' (len/iter/index protocol), 'default' (falls to a
        visit_default that returns its argument).
        """
        ix, T = self.ix, self.T
        hier = set(ix.mro(cls)) | set(ix.subclasses(cls))
        owners_of = T.ir_attr_owners
        for f in self.funcs:
            fl = self.flows[f.qualname]
            for n in walk_no_nested(f.node):
                if isinstance(n, ast.Attribute) and isinstance(n.ctx, ast.Load):
                    if not fl.is_relevant(n) or not fl.is_input(n.value):
                        continue
                    rt = T.types_of(n.value)
                    typed = {t for t in rt if t in ix.classes}
                    match = bool(typed & hier)
                    if not match and not typed and unique_untyped:
                        owners = owners_of.get(n.attr, set())
                        if owners and owners <= hier:
                            match = True
                    if not match:
                        continue
                    covered = self.member_fields(cls, n.attr)
                    if field in covered or "*" in covered:
                        # a method value that is not called does not read anything
                        yield f, n, "attr"
                elif isinstance(n, ast.Name) and isinstance(n.ctx, ast.Load):
                    rt = T.types_of(n)
                    typed = {t for t in rt if t in ix.classes}
                    if not (typed & hier):
                        continue
                    if n.id == fl.selfname or not fl.is_input(n):
                        continue
                    how = self._whole_use(fl, n)
                    if how == "whole" and fl.is_relevant(n):
                        yield f, n, "whole"
                    elif how == "container" and fl.is_relevant(n):
                        if field in self.container_fields(cls) or "*" in self.container_fields(cls):
                            yield f, n, "container"

    def _whole_use(self, fl: FuncFlow, n: ast.Name) -> Optional[str]:
        p = fl.parent.get(id(n))
        if isinstance(p, ast.Attribute) and p.value is n:
            return None
        if isinstance(p, ast.Subscript) and p.value is n:
            return "container"
        if isinstance(p, (ast.For, ast.AsyncFor, ast.comprehension)) and p.iter is n:
            return "container"
        if isinstance(p, ast.Starred):
            return "container"
        if isinstance(p, ast.Compare):
            # identity / equality tests do not pass the value on
            return None
        if isinstance(p, ast.Call):
            if p.func is n:
                return None
            fn = p.func
            if isinstance(fn, ast.Name) and fn.id in NO_FLOW_CALLS:
                return None
            if isinstance(fn, ast.Name) and fn.id in CONTAINER_PROTOCOL_CALLS:
                return "container"
            # self.visit(x): dispatch back into the transformer
            for cs in self.T.callsites(fl.f):
                if cs.node is p and cs.targets:
                    if cs.kind == "visit":
                        if all(t.qualname in self.qualnames for t in cs.targets):
                            return None
                        return "whole"
                    if all(t.qualname in self.qualnames for t in cs.targets) and cs.kind in ("function", "method"):
                        return None  # accounted for inside the callee (typed by call binding)
            return "whole"
        if isinstance(p, (ast.BoolOp, ast.UnaryOp)) or (isinstance(p, (ast.If, ast.While, ast.IfExp)) and getattr(p, "test", None) is n):
            return None  # truthiness only
        return "whole"

    def default_passthrough(self, visitor_cls: str) -> bool:
        """Does the visitor's visit_default return its argument?"""
        fi = self.ix.find_method(visitor_cls, "visit_default")
        if fi is None or len(fi.params) < 2:
            return False
        p = fi.params[1]
        for st in iter_stmts(fi.body):
            if isinstance(st, ast.Return) and isinstance(st.value, ast.Name) and st.value.id == p:
                return True
        return False

    def has_handler(self, visitor_cls: str, cls: str) -> Optional[FuncInfo]:
        for k in self.ix.mro(cls):
            fi = self.ix.find_method(visitor_cls, f"visit_{self.ix.classes[k].name}")
            if fi is not None:
                return fi
        return None

    # ------------------------------------------------------- constructor rule
    def ctor_sites(self, cls: str):
        """Yield (FuncInfo, call node, input names) for constructions of ``cls`` in
        functions that have a ``cls``-typed parameter, the result reaching a return."""
        ix, T = self.ix, self.T
        hier = set(ix.mro(cls)) | set(ix.subclasses(cls))
        for f in self.funcs:
            fl = self.flows[f.qualname]
            env = T.final_env.get(f.qualname, {})
            inputs = [
                p for p in f.all_params
                if p != fl.selfname and {t for t in env.get(p, ()) if t in ix.classes} & hier
            ]
            if not inputs:
                continue
            for cs in T.callsites(f):
                if cs.kind == "constructor" and cs.classes and cs.classes[0] in hier and isinstance(cs.node, ast.Call):
                    if fl.is_relevant(cs.node) and self._is_result(fl, cs.node):
                        yield f, cs.node, inputs

    @staticmethod
    def _is_result(fl: "FuncFlow", call) -> bool:
        """The constructed object *is* the function's result (returned directly, as a
        tuple element, or through one local name) -- not a new inner node."""
        def direct(v):
            if v is call:
                return True
            if isinstance(v, ast.Tuple):
                return any(direct(e) for e in v.elts)
            if isinstance(v, ast.IfExp):
                return direct(v.body) or direct(v.orelse)
            return False

        names = set()
        st = fl.enclosing_stmt(call)
        if isinstance(st, ast.Return) and st.value is not None and direct(st.value):
            return True
        if isinstance(st, ast.Expr) and isinstance(st.value, ast.Yield) and st.value.value is not None and direct(st.value.value):
            return True
        if isinstance(st, ast.Assign) and st.value is call:
            for t in st.targets:
                if isinstance(t, ast.Name):
                    names.add(t.id)
        if not names:
            return False
        for s in iter_stmts(fl.f.body):
            if isinstance(s, ast.Return) and s.value is not None:
                v = s.value
                elts = v.elts if isinstance(v, ast.Tuple) else [v]
                if any(isinstance(e, ast.Name) and e.id in names for e in elts):
                    return True
                # return helper(new_object, ...)
                if any(isinstance(e, ast.Call) and any(isinstance(a, ast.Name) and a.id in names for a in e.args) for e in elts):
                    return True
        return False

    def ctor_field_dependence(self, f: FuncInfo, call: ast.Call, cls: str, field: str, inputs: List[str]):
        """-> (verdict, detail).  verdict in {'data','control','whole','missing','constant','undecided'}"""
        ix, T = self.ix, self.T
        fl = self.flows[f.qualname]
        init = ix.find_method(cls, "__init__")
        info = ix.init_fields(cls).get(field)
        if init is None or info is None:
            return "undecided", "no __init__/field info"
        params = init.params[1:]
        feeding = [p for p in params + [a.arg for a in init.node.args.kwonlyargs] if p in info["params"]]
        if not feeding:
            return self._post_fill_dependence(f, call, cls, field, inputs)
        if any(isinstance(a, ast.Starred) for a in call.args) or any(k.arg is None for k in call.keywords):
            return "undecided", "starred constructor arguments"
        arg_exprs = []
        for p in feeding:
            e = None
            if p in params and params.index(p) < len(call.args):
                e = call.args[params.index(p)]
            for k in call.keywords:
                if k.arg == p:
                    e = k.value
            if e is not None:
                arg_exprs.append(e)
        hier = set(ix.mro(cls)) | set(ix.subclasses(cls))

        def reads_field(expr_roots_ids: Set[int]) -> Optional[str]:
            for n in walk_no_nested(f.node):
                if id(n) not in expr_roots_ids:
                    continue
                if isinstance(n, ast.Attribute) and isinstance(n.ctx, ast.Load):
                    rt = {t for t in T.types_of(n.value) if t in ix.classes}
                    base_ok = bool(rt & hier) or (isinstance(n.value, ast.Name) and n.value.id in inputs)
                    if base_ok:
                        cov = self.member_fields(cls, n.attr)
                        if field in cov or "*" in cov:
                            return "data"
                elif isinstance(n, ast.Name) and n.id in inputs and isinstance(n.ctx, ast.Load):
                    how = self._whole_use(fl, n)
                    if how == "whole":
                        return "whole"
                    if how == "container" and (field in self.container_fields(cls)):
                        return "data"
            return None

        for e in arg_exprs:
            ids, _ = fl.depends(e)
            r = reads_field(ids)
            if r:
                return r, ""
        # control dependence
        for t in fl.control_tests(call):
            ids, _ = fl.depends(t)
            if reads_field(ids):
                return "control", ""
        if not arg_exprs:
            return "missing", f"constructor parameter {'/'.join(feeding)} not passed (default used)"
        return "constant", "argument does not depend on the input's field"

    def _post_fill_dependence(self, f: FuncInfo, call: ast.Call, cls: str, field: str, inputs: List[str]):
        """The field is allocated inside __init__ and filled afterwards through
        the new object's property (``new.constants.update(old.constants)``)."""
        ix, T = self.ix, self.T
        fl = self.flows[f.qualname]
        st = fl.enclosing_stmt(call)
        var = None
        if isinstance(st, ast.Assign) and st.value is call and len(st.targets) == 1 and isinstance(st.targets[0], ast.Name):
            var = st.targets[0].id
        if var is None:
            return "undecided", "constructed object is not bound to a local name"
        hier = set(ix.mro(cls)) | set(ix.subclasses(cls))
        fills = []
        for root, vals, node in fl.mutations:
            if root != var:
                continue
            # first attribute after the root variable
            expr = node.value.func.value if isinstance(node, ast.Expr) else node
            chain = []
            x = expr
            while isinstance(x, (ast.Attribute, ast.Subscript)):
                if isinstance(x, ast.Attribute):
                    chain.append(x.attr)
                x = x.value
            if not chain:
                continue
            first = chain[-1]
            cov = self.member_fields(cls, first)
            if field in cov:
                fills.append((node, vals))
        if not fills:
            return "missing", f"the new {ix.classes[cls].name}'s {field} is never filled"
        filtered = None
        for node, vals in fills:
            for v in vals:
                ids, _ = fl.depends(v)
                for n in walk_no_nested(f.node):
                    if id(n) not in ids:
                        continue
                    if isinstance(n, ast.Attribute) and isinstance(n.ctx, ast.Load):
                        rt = {t for t in T.types_of(n.value) if t in ix.classes}
                        if (rt & hier) or (isinstance(n.value, ast.Name) and n.value.id in inputs):
                            cov = self.member_fields(cls, n.attr)
                            if field in cov or "*" in cov:
                                filt = self._filtering_member(cls, n.attr)
                                if filt:
                                    filtered = (n.attr, filt)
                                    continue
                                return "data", ""
        if filtered:
            return "filtered", f"filled through {ix.classes[cls].name}.{filtered[0]}(), which returns a filtered view ({filtered[1]}): entries of the input's {field} are lost"
        return "constant", f"the statements that fill {field} do not read the input's {field}"

    def _filtering_member(self, cls: str, member: str) -> Optional[str]:
        """If ``member`` is a method whose result is a filtered comprehension, describe the filter."""
        fi = self.ix.find_method(cls, member)
        if fi is None or fi.is_property:
            return None
        for st in iter_stmts(fi.body):
            if isinstance(st, ast.Return) and st.value is not None:
                for n in ast.walk(st.value):
                    if isinstance(n, ast.comprehension) and n.ifs:
                        return "if " + " and ".join(ast.unparse(c) for c in n.ifs)
                    if isinstance(n, ast.Call) and isinstance(n.func, ast.Name) and n.func.id == "filter":
                        return "filter(...)"
        return None
