"""E4 -- statement-level control-flow graph and path queries (networkx)."""

from __future__ import annotations

import ast
from typing import Dict, Iterable, List, Optional, Tuple

import networkx as nx


class CFG:
    """CFG of one function body.

    Node kinds: 'entry', 'exit' (normal return / fall off the end), 'raise'
    (exception leaves the function), 'stmt' (simple statement), 'test'
    (If/While test), 'for' (loop header), 'with', 'try', 'handler', 'join'.
    Edge attribute ``label``: True / False for tests, 'iter' / 'done' for
    loop headers, 'exc' for exception edges, None otherwise.
    """

    def __init__(self, body: List[ast.stmt]):
        self.g = nx.DiGraph()
        self._n = 0
        self.entry = self._new("entry")
        self.exit = self._new("exit")
        self.raise_exit = self._new("raise")
        self.node_of: Dict[int, int] = {}
        self._loops: List[Tuple[int, int]] = []  # (continue target, break target)
        self._handlers: List[List[int]] = []  # stack of handler-entry lists
        last = self._seq(body, [(self.entry, None)])
        for n, lbl in last:
            self._edge(n, self.exit, lbl)

    # ------------------------------------------------------------ primitives
    def _new(self, kind, stmt=None) -> int:
        self._n += 1
        self.g.add_node(self._n, kind=kind, stmt=stmt)
        if stmt is not None and id(stmt) not in self.node_of:
            self.node_of[id(stmt)] = self._n
        return self._n

    def _edge(self, a, b, label=None):
        if self.g.has_edge(a, b):
            # keep both labels if they differ
            old = self.g[a][b].get("labels", set())
            old.add(label)
            self.g[a][b]["labels"] = old
        else:
            self.g.add_edge(a, b, labels={label})

    def _connect(self, preds, node):
        for p, lbl in preds:
            self._edge(p, node, lbl)

    def _exc_edges(self, node):
        """A statement inside try bodies may transfer to the enclosing handlers."""
        if self._handlers:
            for h in self._handlers[-1]:
                self._edge(node, h, "exc")

    # -------------------------------------------------------------- builders
    def _seq(self, stmts, preds):
        for st in stmts:
            preds = self._stmt(st, preds)
        return preds

    def _stmt(self, st, preds):
        if not preds:
            # unreachable code: still build it (detached) so nodes exist
            pass
        if isinstance(st, ast.If):
            t = self._new("test", st)
            self._connect(preds, t)
            self._exc_edges(t)
            out = self._seq(st.body, [(t, True)])
            if st.orelse:
                out = out + self._seq(st.orelse, [(t, False)])
            else:
                out = out + [(t, False)]
            return out
        if isinstance(st, (ast.For, ast.AsyncFor)):
            h = self._new("for", st)
            self._connect(preds, h)
            self._exc_edges(h)
            brk = self._new("join")
            self._loops.append((h, brk))
            out = self._seq(st.body, [(h, "iter")])
            self._loops.pop()
            self._connect(out, h)
            done = self._seq(st.orelse, [(h, "done")])
            self._connect(done, brk)
            return [(brk, None)]
        if isinstance(st, ast.While):
            t = self._new("test", st)
            self._connect(preds, t)
            self._exc_edges(t)
            brk = self._new("join")
            self._loops.append((t, brk))
            out = self._seq(st.body, [(t, True)])
            self._loops.pop()
            self._connect(out, t)
            const_true = isinstance(st.test, ast.Constant) and bool(st.test.value)
            if not const_true:
                done = self._seq(st.orelse, [(t, False)])
                self._connect(done, brk)
            return [(brk, None)]
        if isinstance(st, (ast.With, ast.AsyncWith)):
            w = self._new("with", st)
            self._connect(preds, w)
            self._exc_edges(w)
            return self._seq(st.body, [(w, None)])
        if isinstance(st, ast.Try):
            tnode = self._new("try", st)
            self._connect(preds, tnode)
            hentries = [self._new("handler", h) for h in st.handlers]
            fin_entry = None
            self._handlers.append(hentries if hentries else (self._handlers[-1] if self._handlers else []))
            body_out = self._seq(st.body, [(tnode, None)])
            self._handlers.pop()
            # an exception in the body with no matching handler propagates
            catches_all = any(
                h.type is None
                or (isinstance(h.type, ast.Name) and h.type.id in ("Exception", "BaseException"))
                for h in st.handlers
            )
            else_out = self._seq(st.orelse, body_out) if st.orelse else body_out
            outs = list(else_out)
            for hn, h in zip(hentries, st.handlers):
                outs += self._seq(h.body, [(hn, None)])
            if st.finalbody:
                f = self._new("join")
                self._connect(outs, f)
                outs = self._seq(st.finalbody, [(f, None)])
            if not catches_all and hentries:
                # unmatched exception leaves through outer handlers / the function
                if self._handlers and self._handlers[-1]:
                    for h in self._handlers[-1]:
                        self._edge(tnode, h, "exc")
                else:
                    self._edge(tnode, self.raise_exit, "exc")
            return outs
        if isinstance(st, ast.Return):
            n = self._new("stmt", st)
            self._connect(preds, n)
            self._exc_edges(n)
            self._edge(n, self.exit)
            return []
        if isinstance(st, ast.Raise):
            n = self._new("stmt", st)
            self._connect(preds, n)
            if self._handlers and self._handlers[-1]:
                for h in self._handlers[-1]:
                    self._edge(n, h, "exc")
                # the handler may not match the raised class
                self._edge(n, self.raise_exit, "exc?")
            else:
                self._edge(n, self.raise_exit)
            return []
        if isinstance(st, ast.Break):
            n = self._new("stmt", st)
            self._connect(preds, n)
            if self._loops:
                self._edge(n, self._loops[-1][1])
            return []
        if isinstance(st, ast.Continue):
            n = self._new("stmt", st)
            self._connect(preds, n)
            if self._loops:
                self._edge(n, self._loops[-1][0])
            return []
        if isinstance(st, ast.Assert):
            n = self._new("test", st)
            self._connect(preds, n)
            self._edge(n, self.raise_exit, False)
            return [(n, True)]
        if hasattr(ast, "Match") and isinstance(st, ast.Match):
            m = self._new("stmt", st)
            self._connect(preds, m)
            outs = [(m, None)]
            for case in st.cases:
                outs += self._seq(case.body, [(m, None)])
            return outs
        # simple statement (incl. nested def/class)
        n = self._new("stmt", st)
        self._connect(preds, n)
        self._exc_edges(n)
        return [(n, None)]

    # ---------------------------------------------------------------- queries
    def node(self, stmt) -> Optional[int]:
        return self.node_of.get(id(stmt))

    def succ(self, node, label) -> List[int]:
        return [b for b in self.g.successors(node) if label in self.g[node][b]["labels"]]

    def reachable_from(self, src, removed_edges: Iterable[Tuple[int, int]] = (), removed_nodes=()) -> set:
        removed = set(removed_edges)
        rn = set(removed_nodes)
        seen = {src}
        stack = [src]
        while stack:
            a = stack.pop()
            for b in self.g.successors(a):
                if (a, b) in removed or b in rn or b in seen:
                    continue
                seen.add(b)
                stack.append(b)
        return seen

    def branch_edges(self, test_node, label) -> List[Tuple[int, int]]:
        return [(test_node, b) for b in self.succ(test_node, label)]

    def branch_never_returns(self, test_node, label) -> bool:
        """All paths that leave test_node through ``label`` end in the raise exit."""
        for a, b in self.branch_edges(test_node, label):
            if self.exit in self.reachable_from(b) or b == self.exit:
                return False
        return bool(self.branch_edges(test_node, label))

    def must_pass_edges(self, site, edges: Iterable[Tuple[int, int]]) -> bool:
        """Every path entry -> site uses one of ``edges`` (site unreachable when they are removed)."""
        return site not in self.reachable_from(self.entry, removed_edges=edges)

    def must_pass_nodes(self, site, nodes) -> bool:
        return site not in self.reachable_from(self.entry, removed_nodes=nodes)

    def guarded_by_raise(self, site, test_node) -> Optional[object]:
        """If ``test_node`` is an if-test one of whose branches never returns and
        every path to ``site`` passes through the *other* branch, return the
        label of the raising branch; else None."""
        for lbl in (True, False):
            if self.branch_never_returns(test_node, lbl):
                other = self.branch_edges(test_node, not lbl)
                if other and self.must_pass_edges(site, other) and site in self.reachable_from(self.entry):
                    return lbl
        return None

    def dominates(self, a, b) -> bool:
        return self.must_pass_nodes(b, [a]) if a != b else True

    def stmts_reaching_exit_without(self, nodes) -> bool:
        """Is the normal exit reachable from entry avoiding ``nodes``?"""
        return self.exit in self.reachable_from(self.entry, removed_nodes=nodes)

    def containing_stmt_node(self, expr_or_stmt, func_body) -> Optional[int]:
        """CFG node of the innermost statement that contains the given ast node."""
        target = id(expr_or_stmt)
        best = None

        def visit(stmts):
            nonlocal best
            for st in stmts:
                if any(id(n) == target for n in ast.walk(st)):
                    if id(st) in self.node_of:
                        # for compound statements decide whether the node is in the header
                        hdr = header_exprs(st)
                        if hdr is None:
                            best = self.node_of[id(st)]
                            return
                        if any(id(n) == target for h in hdr for n in ast.walk(h)) or id(st) == target:
                            best = self.node_of[id(st)]
                            return
                    for fld in ("body", "orelse", "finalbody"):
                        sub = getattr(st, fld, None)
                        if sub:
                            visit(sub)
                    for h in getattr(st, "handlers", []) or []:
                        visit(h.body)
                    if hasattr(ast, "Match") and isinstance(st, ast.Match):
                        for c in st.cases:
                            visit(c.body)
                    return

        visit(func_body)
        return best


def header_exprs(st) -> Optional[List[ast.AST]]:
    """Expressions evaluated at the node of a compound statement; None for simple statements."""
    if isinstance(st, ast.If):
        return [st.test]
    if isinstance(st, ast.While):
        return [st.test]
    if isinstance(st, (ast.For, ast.AsyncFor)):
        return [st.iter, st.target]
    if isinstance(st, (ast.With, ast.AsyncWith)):
        return [i.context_expr for i in st.items] + [i.optional_vars for i in st.items if i.optional_vars is not None]
    if isinstance(st, ast.Try):
        return []
    if isinstance(st, (ast.FunctionDef, ast.AsyncFunctionDef, ast.ClassDef)):
        return list(st.decorator_list)
    return None


def iter_stmts(body) -> Iterable[ast.stmt]:
    """All statements of a function body, recursively, *not* entering nested defs/classes."""
    for st in body:
        yield st
        if isinstance(st, (ast.FunctionDef, ast.AsyncFunctionDef, ast.ClassDef)):
            continue
        for fld in ("body", "orelse", "finalbody"):
            sub = getattr(st, fld, None)
            if sub:
                yield from iter_stmts(sub)
        for h in getattr(st, "handlers", []) or []:
            yield from iter_stmts(h.body)
        if hasattr(ast, "Match") and isinstance(st, ast.Match):
            for c in st.cases:
                yield from iter_stmts(c.body)


def walk_no_nested(node) -> Iterable[ast.AST]:
    """ast.walk that does not descend into nested function/class/lambda bodies."""
    stack = [node]
    first = True
    while stack:
        n = stack.pop()
        yield n
        for ch in ast.iter_child_nodes(n):
            if isinstance(ch, (ast.FunctionDef, ast.AsyncFunctionDef, ast.ClassDef, ast.Lambda)):
                yield ch  # the def itself, not its body
                continue
            stack.append(ch)
