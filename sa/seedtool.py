"""Import, verify and evaluate seeded mutations.

  python -m sa.seedtool import <srcdir> <seed-id> <property>   copy patch.diff/demo.py/notes.md into /verif/seeded/<seed-id>/
  python -m sa.seedtool eval [seed-id ...]                      verify each seed in a scratch worktree of /repo HEAD
                                                                and run every claimed check against the patched tree

Nothing is ever applied to /repo itself: the checks are pointed at the scratch
worktree with --repo.  Scratch worktrees live under /tmp and are removed.
"""

from __future__ import annotations

import json
import os
import shutil
import subprocess
import sys
from concurrent.futures import ThreadPoolExecutor

from .report import VERIF

SEEDED = os.path.join(VERIF, "seeded")
PY = "/venv/bin/python"


def sh(cmd, cwd=None, env=None, timeout=900):
    p = subprocess.run(cmd, shell=True, cwd=cwd, env=env, capture_output=True, text=True, timeout=timeout)
    return p.returncode, (p.stdout + p.stderr)


def do_import(src, sid, prop):
    dst = os.path.join(SEEDED, sid)
    os.makedirs(dst, exist_ok=True)
    for fn in ("patch.diff", "demo.py", "notes.md", "demo_gates.py"):
        p = os.path.join(src, fn)
        if os.path.exists(p):
            shutil.copy(p, os.path.join(dst, fn))
    meta = {"seed": sid, "property": prop, "origin": "independent sub-agent given only the property text and a scratch worktree"}
    with open(os.path.join(dst, "meta.json"), "w") as fd:
        json.dump(meta, fd, indent=1)


def claimed():
    with open(os.path.join(VERIF, "MANIFEST.json")) as fd:
        m = json.load(fd)
    return [c["property_id"] for c in m["checks"]]


def evaluate(sid):
    d = os.path.join(SEEDED, sid)
    meta_p = os.path.join(d, "meta.json")
    meta = json.load(open(meta_p))
    wt = f"/tmp/seedwt_{sid}"
    sh(f"git -C /repo worktree remove --force {wt}")
    shutil.rmtree(wt, ignore_errors=True)
    rc, out = sh(f"git -C /repo worktree add -q --detach {wt} HEAD")
    if rc:
        meta["error"] = out
        json.dump(meta, open(meta_p, "w"), indent=1)
        return sid, meta
    try:
        env = dict(os.environ, PYTHONPATH=f"{wt}/src")
        head = sh("git -C /repo rev-parse --short HEAD")[1].strip()
        meta["evaluated_at_repo_commit"] = head
        rc0, out0 = sh(f"{PY} demo.py", cwd=d, env=env, timeout=600)
        meta["demo_clean_exit"] = rc0
        rc, out = sh(f"git -C {wt} apply --whitespace=nowarn {d}/patch.diff")
        if rc:
            rc, out = sh(f"git -C {wt} apply --3way --whitespace=nowarn {d}/patch.diff")
        meta["patch_applies"] = rc == 0
        if rc:
            meta["apply_error"] = out[-400:]
            return sid, meta
        rc1, out1 = sh(f"{PY} demo.py", cwd=d, env=env, timeout=600)
        meta["demo_mutated_exit"] = rc1
        meta["demo_mutated_tail"] = out1[-600:]
        rct, outt = sh(f"{PY} -m pytest -q -p no:cacheprovider --deselect tests/ipc -x -q 2>&1 | tail -3", cwd=wt, env=env, timeout=900)
        meta["suite_with_mutation"] = outt.strip().splitlines()[-1] if outt.strip() else ""
        meta["suite_passes"] = " failed" not in outt and "error" not in outt.lower()
        fired = {}
        for pid in claimed():
            rc, out = sh(f"{PY} -m sa.check {pid} --tier quick --no-evidence --repo {wt}", cwd=VERIF, timeout=600)
            if rc == 1:
                fired[pid] = [l for l in out.splitlines() if l and not l.startswith(("VIOLATION", "KNOWN", "WARNING"))][:6]
            elif rc == 2:
                fired[pid + ":ANALYSIS-ERROR"] = out.strip().splitlines()[-3:]
        meta["checks_fired"] = fired
        meta["detected"] = bool([k for k in fired if "ANALYSIS" not in k])
        meta["what_i_ran"] = [
            "demo.py on a clean scratch worktree of /repo HEAD (PYTHONPATH=<wt>/src)",
            "git apply patch.diff in the scratch worktree; demo.py again; the repository's test suite without tests/ipc",
            "python -m sa.check <every claimed property> --repo <scratch worktree>",
        ]
        meta["valid_seed"] = meta.get("demo_clean_exit") == 0 and meta.get("demo_mutated_exit", 0) != 0 and meta.get("suite_passes", False)
    finally:
        sh(f"git -C /repo worktree remove --force {wt}")
        shutil.rmtree(wt, ignore_errors=True)
        json.dump(meta, open(meta_p, "w"), indent=1)
    return sid, meta


def main():
    cmd = sys.argv[1]
    if cmd == "import":
        do_import(*sys.argv[2:5])
    elif cmd == "eval":
        sids = sys.argv[2:] or sorted(x for x in os.listdir(SEEDED) if os.path.isdir(os.path.join(SEEDED, x)) and os.path.exists(os.path.join(SEEDED, x, "patch.diff")))
        with ThreadPoolExecutor(max_workers=6) as ex:
            for sid, meta in ex.map(evaluate, sids):
                print(sid, "valid" if meta.get("valid_seed") else "INVALID", "detected" if meta.get("detected") else "MISSED",
                      {k: (v[0][:150] if v else "") for k, v in meta.get("checks_fired", {}).items()})
                if not meta.get("valid_seed"):
                    print("   ", {k: meta.get(k) for k in ("demo_clean_exit", "patch_applies", "demo_mutated_exit", "suite_with_mutation", "apply_error", "error")})
    return 0


if __name__ == "__main__":
    raise SystemExit(main())
