"""Mutation sweep: a development aid for finding blind spots of the rule sets.

NOT a check and not registered in MANIFEST.json: it runs the repository's test suite on
scratch copies to discard mutants the suite already kills.  For every remaining mutant it
records whether some static check reports a violation.  Survivors that no check reports are
candidates for triage (do they break a property? -> new rule; are they equivalent? -> ignore).

  python -m sa.devtools.mutsweep gen            list mutants (count per operator)
  python -m sa.devtools.mutsweep run [--limit N] [--seed S] [--ops a,b] [--files substr]
"""
from __future__ import annotations

import ast
import json
import os
import shutil
import subprocess
import sys
from concurrent.futures import ProcessPoolExecutor

from ..index import load_sources

SCOPE = [
    "src/jaqalpaq/core/algorithm/", "src/jaqalpaq/core/circuitbuilder.py", "src/jaqalpaq/core/register.py", "src/jaqalpaq/core/gatedef.py",
    "src/jaqalpaq/core/gate.py", "src/jaqalpaq/core/block.py", "src/jaqalpaq/core/circuit.py", "src/jaqalpaq/core/macro.py", "src/jaqalpaq/core/constant.py",
    "src/jaqalpaq/core/parameter.py", "src/jaqalpaq/core/result.py", "src/jaqalpaq/core/stretch.py", "src/jaqalpaq/core/usepulses.py", "src/jaqalpaq/core/identifier.py",
    "src/jaqalpaq/generator/generator.py", "src/jaqalpaq/parser/slyparse.py", "src/jaqalpaq/parser/parser.py", "src/jaqalpaq/emulator/unitary.py",
    "src/jaqalpaq/emulator/backend.py", "src/jaqalpaq/run/run.py", "src/jaqalpaq/qsyntax/qsyntax.py", "src/jaqalpaq/_import.py",
]
OUT = "/tmp/mutsweep"


def offsets(text):
    starts = [0]
    for line in text.splitlines(keepends=True):
        starts.append(starts[-1] + len(line.encode("utf8")))
    return starts


def seg(text_b, starts, node):
    a = starts[node.lineno - 1] + node.col_offset
    b = starts[node.end_lineno - 1] + node.end_col_offset
    return a, b


def gen_mutants(path, text):
    out = []
    try:
        tree = ast.parse(text)
    except SyntaxError:
        return out
    tb = text.encode("utf8")
    st = offsets(text)

    def add(op, node, new, note=""):
        a, b = seg(tb, st, node)
        old = tb[a:b].decode("utf8")
        if old == new:
            return
        out.append({"path": path, "op": op, "line": node.lineno, "a": a, "b": b, "new": new, "old": old[:80], "note": note})

    parents = {}
    for n in ast.walk(tree):
        for c in ast.iter_child_nodes(n):
            parents[id(c)] = n
    for n in ast.walk(tree):
        # skip docstrings / decorators
        if isinstance(n, ast.Compare) and len(n.ops) == 1:
            op = n.ops[0]
            swap = {ast.Lt: "<=", ast.LtE: "<", ast.Gt: ">=", ast.GtE: ">", ast.Eq: "!=", ast.NotEq: "==", ast.Is: "is not", ast.IsNot: "is", ast.In: "not in", ast.NotIn: "in"}
            for k, v in swap.items():
                if isinstance(op, k):
                    new = f"{ast.unparse(n.left)} {v} {ast.unparse(n.comparators[0])}"
                    add("cmp", n, new)
        elif isinstance(n, ast.If):
            t = n.test
            new = ast.unparse(t.operand) if isinstance(t, ast.UnaryOp) and isinstance(t.op, ast.Not) else f"not ({ast.unparse(t)})"
            add("negate-if", t, new)
            # drop a raising guard
            if len(n.body) == 1 and isinstance(n.body[0], ast.Raise) and not n.orelse:
                add("drop-guard", n, "pass")
        elif isinstance(n, ast.BoolOp) and len(n.values) == 2:
            add("boolop-left", n, ast.unparse(n.values[0]))
            add("boolop-right", n, ast.unparse(n.values[1]))
            other = "or" if isinstance(n.op, ast.And) else "and"
            add("boolop-swap", n, f"{ast.unparse(n.values[0])} {other} {ast.unparse(n.values[1])}")
        elif isinstance(n, ast.Call):
            if n.keywords and isinstance(n.func, ast.Name) and n.func.id[:1].isupper():
                for i, k in enumerate(n.keywords):
                    if k.arg is None:
                        continue
                    kws = [x for j, x in enumerate(n.keywords) if j != i]
                    c2 = ast.Call(func=n.func, args=n.args, keywords=kws)
                    add("drop-kwarg", n, ast.unparse(c2), k.arg)
            if len(n.args) == 2 and not any(isinstance(a, ast.Starred) for a in n.args) and ast.unparse(n.args[0]) != ast.unparse(n.args[1]):
                c2 = ast.Call(func=n.func, args=[n.args[1], n.args[0]], keywords=n.keywords)
                add("swap-args", n, ast.unparse(c2))
            if isinstance(n.func, ast.Attribute) and n.func.attr == "visit" and len(n.args) >= 1 and isinstance(n.func.value, ast.Name) and n.func.value.id == "self":
                add("unvisit", n, ast.unparse(n.args[0]))
            if isinstance(n.func, ast.Attribute) and n.func.attr in ("extend", "append", "update", "add", "appendleft") and isinstance(parents.get(id(n)), ast.Expr):
                add("drop-call", parents[id(n)], "pass")
        elif isinstance(n, ast.Constant) and isinstance(n.value, int) and not isinstance(n.value, bool) and n.value in (0, 1):
            p = parents.get(id(n))
            if isinstance(p, (ast.Compare, ast.BinOp, ast.Subscript, ast.Slice, ast.Call, ast.Return, ast.Assign, ast.IfExp)):
                add("const01", n, "1" if n.value == 0 else "0")
        elif isinstance(n, ast.Constant) and isinstance(n.value, bool):
            add("bool-flip", n, "False" if n.value else "True")
        elif isinstance(n, ast.BinOp) and isinstance(n.op, (ast.Add, ast.Sub)):
            sym = "-" if isinstance(n.op, ast.Add) else "+"
            add("plusminus", n, f"{ast.unparse(n.left)} {sym} {ast.unparse(n.right)}")
        elif isinstance(n, ast.Attribute) and isinstance(n.ctx, ast.Load):
            sib = {"start": "stop", "stop": "start", "parallel": "subcircuit", "subcircuit": "parallel", "alias_from": "alias_index", "registers": "constants", "constants": "registers",
                   "body": "statements", "iterations": "statements", "classical": "quantum"}
            if n.attr in sib and n.attr != "statements":
                a2 = ast.Attribute(value=n.value, attr=sib[n.attr], ctx=n.ctx)
                add("sibling-attr", n, ast.unparse(a2))
        elif isinstance(n, ast.Return) and n.value is not None and isinstance(parents.get(id(n)), ast.If):
            pass
    return out


def all_mutants(ops=None, files=None):
    src = load_sources()
    muts = []
    for p, t in sorted(src.items()):
        if not any(p == s or p.startswith(s) for s in SCOPE):
            continue
        if files and files not in p:
            continue
        for m in gen_mutants(p, t):
            if ops and m["op"] not in ops:
                continue
            muts.append(m)
    for i, m in enumerate(muts):
        m["id"] = i
    return src, muts


def apply(src, m):
    s2 = dict(src)
    tb = src[m["path"]].encode("utf8")
    s2[m["path"]] = (tb[:m["a"]] + m["new"].encode("utf8") + tb[m["b"]:]).decode("utf8")
    return s2


_BASE = None


def _static(args):
    """Run every claimed check on the mutated source map; return the properties that report a new violation."""
    m, props = args
    global _BASE
    from ..check import Ctx, run_property
    from ..report import split_known
    src = load_sources()
    s2 = apply(src, m)
    try:
        ast.parse(s2[m["path"]])
    except SyntaxError:
        return m["id"], "syntax", {}
    fired = {}
    ctx = Ctx(sources=s2)
    for pid in props:
        try:
            rep = run_property(pid, ctx, "quick")
            new, _ = split_known(rep)
            if new:
                fired[pid] = f"{new[0].rule} {new[0].construct}"
        except Exception as e:  # analysis errors count as "noticed"
            fired[pid + ":ERR"] = str(e)[:80]
    return m["id"], "ok", fired


def _tests(m):
    src = load_sources()
    s2 = apply(src, m)
    d = f"{OUT}/t{m['id']}"
    shutil.rmtree(d, ignore_errors=True)
    os.makedirs(d)
    subprocess.run(f"cp -r /repo/src /repo/tests /repo/examples {d}/ 2>/dev/null; cp /repo/setup.cfg /repo/pyproject.toml /repo/conftest.py {d}/ 2>/dev/null", shell=True)
    with open(os.path.join(d, m["path"]), "w") as fd:
        fd.write(s2[m["path"]])
    env = dict(os.environ, PYTHONPATH=f"{d}/src", PYTHONDONTWRITEBYTECODE="1")
    try:
        p = subprocess.run("/venv/bin/python -m pytest -q -x -p no:cacheprovider --deselect tests/ipc -q 2>&1 | tail -3", shell=True, cwd=d, env=env, capture_output=True, text=True, timeout=300)
        out = p.stdout
    except subprocess.TimeoutExpired:
        out = "TIMEOUT failed"
    shutil.rmtree(d, ignore_errors=True)
    survived = ("failed" not in out) and ("error" not in out.lower()) and ("passed" in out or out.strip().endswith("[100%]"))
    return m["id"], survived, out.strip()[-120:]


def main():
    args = sys.argv[1:]
    cmd = args[0] if args else "gen"
    ops = files = None
    limit = None
    seed = 1
    for i, a in enumerate(args):
        if a == "--seed":
            seed = int(args[i + 1])
        if a == "--ops":
            ops = set(args[i + 1].split(","))
        if a == "--files":
            files = args[i + 1]
        if a == "--limit":
            limit = int(args[i + 1])
    if cmd == "recheck":
        # run today's rules on the survivors of the last run (the repository must not have changed since)
        prev = json.load(open(f"{OUT}/results.json"))
        surv = [m for m in prev if m.get("survived_tests")]
        props = [c["property_id"] for c in json.load(open("/verif/MANIFEST.json"))["checks"]]
        still = []
        with ProcessPoolExecutor(max_workers=int(os.environ.get("MUTSWEEP_JOBS", "14"))) as ex:
            for (mid, status, fired), m in zip(ex.map(_static, [(m, props) for m in surv], chunksize=2), surv):
                if not fired:
                    still.append(m)
        print(f"survivors {len(surv)}; now reported {len(surv) - len(still)}; still unreported {len(still)}")
        for r in still:
            print(f"  #{r['id']} {r['path']}:{r['line']} [{r['op']}] {r['old']!r} -> {r['new'][:80]!r}")
        return
    src, muts = all_mutants(ops, files)
    if cmd == "gen":
        from collections import Counter
        print(len(muts), Counter(m["op"] for m in muts))
        return
    if limit:
        import random
        random.Random(seed).shuffle(muts)
        muts = muts[:limit]
    props = [c["property_id"] for c in json.load(open("/verif/MANIFEST.json"))["checks"]]
    os.makedirs(OUT, exist_ok=True)
    res = {m["id"]: dict(m) for m in muts}
    with ProcessPoolExecutor(max_workers=int(os.environ.get("MUTSWEEP_JOBS", "14"))) as ex:
        for mid, status, fired in ex.map(_static, [(m, props) for m in muts], chunksize=2):
            res[mid]["static"] = status
            res[mid]["fired"] = fired
    undetected = [m for m in muts if res[m["id"]]["static"] == "ok" and not res[m["id"]]["fired"]]
    print(f"mutants {len(muts)}; flagged by a check {sum(1 for m in muts if res[m['id']].get('fired'))}; undetected {len(undetected)} -> running the suite on those")
    with ProcessPoolExecutor(max_workers=int(os.environ.get("MUTSWEEP_JOBS", "14"))) as ex:
        for mid, survived, tail in ex.map(_tests, undetected):
            res[mid]["survived_tests"] = survived
            res[mid]["tests_tail"] = tail
    surv = [res[m["id"]] for m in undetected if res[m["id"]].get("survived_tests")]
    json.dump(list(res.values()), open(f"{OUT}/results.json", "w"), indent=1)
    print(f"undetected mutants that also pass the suite: {len(surv)}")
    for r in surv:
        print(f"  #{r['id']} {r['path']}:{r['line']} [{r['op']}] {r['old']!r} -> {r['new'][:80]!r}")


if __name__ == "__main__":
    main()
