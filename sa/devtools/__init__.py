"""Development tools (not part of any registered check)."""
