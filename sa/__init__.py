"""Static analysers for haikusw/jaqalpaq (see /verif/DESIGN.md).

Nothing in this package imports or executes code from /repo: sources are read
as text and analysed with ``ast`` / ``re._parser`` only.
"""

REPO = "/repo"
SRC_PREFIX = "src/jaqalpaq"
