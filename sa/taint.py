"""E9 -- small forward taint analysis inside one function (with container flow)."""

from __future__ import annotations

import ast
from typing import Callable, List, Set, Tuple

from .cfg import walk_no_nested, iter_stmts

APPENDERS = {"append", "add", "appendleft", "insert", "extend", "update"}


class Taint:
    """Flow-insensitive taint: a name is tainted when any value assigned to it
    (or appended to it, or iterated from a tainted container) is tainted."""

    def __init__(self, func_node, is_source: Callable[[ast.AST], bool]):
        self.node = func_node
        self.is_source = is_source
        self.tainted: Set[str] = set()
        self.parent = {}
        for n in walk_no_nested(func_node):
            for ch in ast.iter_child_nodes(n):
                self.parent[id(ch)] = n
        self._run()

    def expr_tainted(self, e) -> bool:
        for n in walk_no_nested(e):
            if self.is_source(n):
                return True
            if isinstance(n, ast.Name) and isinstance(n.ctx, ast.Load) and n.id in self.tainted:
                return True
        return False

    def _targets(self, t) -> List[str]:
        if isinstance(t, ast.Name):
            return [t.id]
        if isinstance(t, (ast.Tuple, ast.List)):
            out = []
            for e in t.elts:
                out += self._targets(e.value if isinstance(e, ast.Starred) else e)
            return out
        return []

    def _run(self):
        changed = True
        while changed:
            changed = False

            def taint(names):
                nonlocal changed
                for nm in names:
                    if nm not in self.tainted:
                        self.tainted.add(nm)
                        changed = True

            for n in walk_no_nested(self.node):
                if isinstance(n, ast.Assign) and self.expr_tainted(n.value):
                    for t in n.targets:
                        taint(self._targets(t))
                elif isinstance(n, ast.AugAssign) and self.expr_tainted(n.value):
                    taint(self._targets(n.target))
                elif isinstance(n, (ast.For, ast.comprehension)) and self.expr_tainted(n.iter):
                    taint(self._targets(n.target))
                elif isinstance(n, ast.Call) and isinstance(n.func, ast.Attribute) and n.func.attr in APPENDERS and isinstance(n.func.value, ast.Name):
                    if any(self.expr_tainted(a) for a in n.args):
                        taint([n.func.value.id])
                elif isinstance(n, ast.NamedExpr) and self.expr_tainted(n.value):
                    taint(self._targets(n.target))

    def sinks(self, is_sink: Callable[[ast.AST, "Taint"], bool]) -> List[ast.AST]:
        return [n for n in walk_no_nested(self.node) if is_sink(n, self)]
